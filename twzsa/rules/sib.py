"""SIB - sibling implementations (sync / async twins) must agree (DESIGN 4.6)."""
from __future__ import annotations

import ast
import copy
from typing import Dict, List, Optional, Tuple

from ..ctx import Ctx, arg_for_param, dotted, names_in
from ..loader import FuncInfo, iter_own_nodes, own_walk
from ..report import RuleResult, Undecided, norm_src
from .ref import pkg_funcs

RENAME = {
    "sync_execute": "EXECUTE", "async_execute": "EXECUTE",
    "DAGExecution": "EXECUTION", "AsyncDAGExecution": "EXECUTION",
    "wait_for_finished_nodes": "WAIT_HELPER", "wait_for_finished_nodes_async": "WAIT_HELPER",
    "DAG": "DAGCLS", "AsyncDAG": "DAGCLS",
}


class _Norm(ast.NodeTransformer):
    """Erase what legitimately differs between twins: await, logging, docstrings, the names of the twins themselves,
    'asyncio.wait' vs 'wait', and the names of local variables (alpha-renaming by first occurrence)."""

    def __init__(self, params: List[str]):
        self.names: Dict[str, str] = {}
        self.params = set(params)

    def visit_Await(self, node: ast.Await):
        return self.visit(node.value)

    def visit_Expr(self, node: ast.Expr):
        v = node.value
        if isinstance(v, ast.Constant) and isinstance(v.value, str):
            return None
        if isinstance(v, ast.Call) and (dotted(v.func) or "").startswith("logger."):
            return None
        if isinstance(v, ast.Await):
            inner = v.value
            if isinstance(inner, ast.Call) and (dotted(inner.func) or "").startswith("logger."):
                return None
        return self.generic_visit(node)

    def visit_Return(self, node: ast.Return):
        if node.value is None:
            return None
        return self.generic_visit(node)

    def visit_Call(self, node: ast.Call):
        node = self.generic_visit(node)
        if isinstance(node, ast.Call) and all(k.arg is not None for k in node.keywords):
            node.keywords = sorted(node.keywords, key=lambda k: k.arg)  # keyword order is irrelevant
        return node

    def visit_Name(self, node: ast.Name):
        if node.id in RENAME:
            return ast.copy_location(ast.Name(id=RENAME[node.id], ctx=node.ctx), node)
        return node

    def visit_Attribute(self, node: ast.Attribute):
        d = dotted(node)
        if d == "asyncio.wait":
            return ast.copy_location(ast.Name(id="wait", ctx=ast.Load()), node)
        return self.generic_visit(node)

    def visit_Compare(self, node: ast.Compare):
        # len(x) == 0  ->  not x ;  len(x) != 0 / len(x) > 0  ->  x
        if len(node.ops) == 1 and isinstance(node.left, ast.Call) and dotted(node.left.func) == "len" and len(node.left.args) == 1 \
                and isinstance(node.comparators[0], ast.Constant) and node.comparators[0].value == 0:
            x = self.visit(node.left.args[0])
            if isinstance(node.ops[0], ast.Eq):
                return ast.copy_location(ast.UnaryOp(op=ast.Not(), operand=x), node)
            if isinstance(node.ops[0], (ast.NotEq, ast.Gt)):
                return x
        return self.generic_visit(node)

    def visit_Constant(self, node: ast.Constant):
        if isinstance(node.value, str):
            return ast.copy_location(ast.Constant(value="<str>"), node)
        return node

    def visit_JoinedStr(self, node: ast.JoinedStr):
        return ast.copy_location(ast.Constant(value="<str>"), node)


class _MergeIfs(ast.NodeTransformer):
    """`if a: if b: X` (no else arm on either, the inner `if` alone in the body) is `if a and b: X`; an `if T: continue` guard
    clause at the head of a loop body followed by the rest is `if not T: <rest>`."""
    def visit_If(self, node: ast.If):
        self.generic_visit(node)
        while not node.orelse and len(node.body) == 1 and isinstance(node.body[0], ast.If) and not node.body[0].orelse:
            inner = node.body[0]
            node.test = ast.BoolOp(op=ast.And(), values=[node.test, inner.test])
            node.body = inner.body
        if isinstance(node.test, ast.BoolOp) and isinstance(node.test.op, ast.And):
            flat = []
            for v in node.test.values:
                flat += v.values if isinstance(v, ast.BoolOp) and isinstance(v.op, ast.And) else [v]
            node.test.values = flat
        return node

    def _loop(self, node):
        self.generic_visit(node)
        body = node.body
        i = next((k for k, st in enumerate(body) if isinstance(st, ast.If) and not st.orelse and len(st.body) == 1
                  and isinstance(st.body[0], ast.Continue)), None)
        if i is not None and i + 1 < len(body) and not any(isinstance(x, ast.Continue) for st in body[i + 1:] for x in ast.walk(st)):
            g = body[i]
            t = g.test
            parts = t.values if isinstance(t, ast.BoolOp) and isinstance(t.op, ast.Or) else [t]
            neg = [p.operand if isinstance(p, ast.UnaryOp) and isinstance(p.op, ast.Not) else ast.UnaryOp(op=ast.Not(), operand=p) for p in parts]
            test = neg[0] if len(neg) == 1 else ast.BoolOp(op=ast.And(), values=neg)
            node.body = body[:i] + [self.visit_If(ast.If(test=test, body=body[i + 1:], orelse=[]))]
        return node

    visit_For = _loop
    visit_AsyncFor = _loop
    visit_While = _loop


def _normalise(stmts: List[ast.stmt], params: List[str]) -> List[str]:
    out = []
    n = _Norm(params)
    for s in stmts:
        s2 = n.visit(copy.deepcopy(s))
        if s2 is None:
            continue
        s2 = _MergeIfs().visit(s2)
        ast.fix_missing_locations(s2)
        out.append(ast.unparse(s2))
    return out


def _alpha(lines: List[str], f: FuncInfo) -> List[str]:
    """Alpha-rename local (assigned) names by order of first occurrence."""
    text = "\n".join(lines)
    try:
        tree = ast.parse(text)
    except SyntaxError:
        return lines
    locals_: List[str] = []
    for n in ast.walk(tree):
        if isinstance(n, ast.Name) and isinstance(n.ctx, ast.Store) and n.id not in locals_:
            locals_.append(n.id)
    mp = {}
    for n in ast.walk(tree):
        if isinstance(n, ast.Name) and n.id in locals_:
            mp.setdefault(n.id, f"v{len(mp)}")
    for n in ast.walk(tree):
        if isinstance(n, ast.Name) and n.id in mp:
            n.id = mp[n.id]
    return [ast.unparse(s) for s in tree.body]


def _summary(f: FuncInfo, stmts: Optional[List[ast.stmt]] = None) -> List[str]:
    a = f.node.args
    params = [p.arg for p in a.posonlyargs + a.args + a.kwonlyargs]
    body = stmts if stmts is not None else f.node.body
    return _alpha(_normalise(body, params), f)


def _signature(f: FuncInfo, names: bool = True) -> str:
    a = f.node.args
    parts = [(p.arg if names else "_") + (":" + norm_src(p.annotation) if p.annotation is not None else "") for p in a.posonlyargs + a.args]
    parts += ["*" + a.vararg.arg] if a.vararg else []
    parts += [p.arg for p in a.kwonlyargs]
    parts += ["**" + a.kwarg.arg] if a.kwarg else []
    defaults = [norm_src(d) for d in a.defaults]
    s = ",".join(parts) + "|" + ",".join(defaults)
    for k, v in RENAME.items():
        s = s.replace(k, v)
    return s.replace("asyncio.Future", "Future").replace("'", '"')


def _shape(line: str) -> str:
    """Statement text with every identifier blanked: a name-independent sort key."""
    try:
        t = ast.parse(line)
    except SyntaxError:
        return line
    for n in ast.walk(t):
        if isinstance(n, ast.Name):
            n.id = "_"
    return ast.dump(t)


def _reorder(lines: List[str], f: FuncInfo) -> List[str]:
    """Order-insensitive canonical form: statements sorted by shape, then alpha-renamed in that order."""
    return _alpha(sorted(lines, key=_shape), f)


def _calls(lines: List[str]) -> List[str]:
    """Multiset of the calls made by the normalised statements: 'callee(arg, kw=arg, ...)' with nested calls listed separately."""
    out = []
    for ln in lines:
        try:
            t = ast.parse(ln)
        except SyntaxError:
            continue
        tests = {id(x) for n in ast.walk(t) if isinstance(n, (ast.If, ast.While, ast.IfExp)) for x in ast.walk(n.test)}
        for n in ast.walk(t):
            if isinstance(n, ast.Call) and id(n) not in tests:  # predicates inside guards are judged with the guards
                out.append(ast.unparse(n))
    return sorted(out)


def _compare(r: RuleResult, what: str, fa: FuncInfo, fb: FuncInfo, sa: List[str], sb: List[str]) -> None:
    ok = sa == sb
    if not ok and len(sa) == len(sb):
        # independent statements in another order are not a difference
        ok = _reorder(sa, fa) == _reorder(sb, fb)
    if not ok and _calls(sa) == _calls(sb):
        # same calls with the same arguments, different statement structure (nested ifs, an equivalent guard spelled differently, ...):
        # equivalence is not decided here - the guards themselves are judged by the rules that own them (OWN-WRITEBACK, GT-GATE, ...)
        raise Undecided(f"{what}: the twins make the same calls with the same arguments but are structured differently; "
                        f"equivalence of the two structures is not decided")
    r.ob(ok, {"pair": what, "statements compared": len(sa), "equal": ok})
    if not ok:
        diff = None
        for i in range(max(len(sa), len(sb))):
            x = sa[i] if i < len(sa) else "<missing>"
            y = sb[i] if i < len(sb) else "<missing>"
            if x != y:
                diff = {"sync": x[:300], "async": y[:300]}
                break
        r.violate(f"{what}: sync and async twins differ", fa.loc(),
                  "the two flavours must have the same effects (calls with the same arguments, writes to the same fields under the "
                  "same guards, same returns) once await/logging/twin names are erased", diff)


def _pair(ctx: Ctx, ca: str, cb: str, name: str) -> Tuple[FuncInfo, FuncInfo]:
    fa, fb = ctx.own_method(ca, name), ctx.own_method(cb, name)
    if fa is None or fb is None:
        raise Undecided(f"twin methods {ca}.{name} / {cb}.{name} not found")
    return fa, fb


def sib_dag(ctx: Ctx) -> RuleResult:
    r = RuleResult("SIB-DAG")
    for name in ("executor", "setup", "run_subgraph"):
        fa, fb = _pair(ctx, "DAG", "AsyncDAG", name)
        _compare(r, f"DAG.{name} / AsyncDAG.{name}", fa, fb, _summary(fa), _summary(fb))
        oks = _signature(fa) == _signature(fb)
        r.ob(oks, {"signature": name, "equal": oks})
        if not oks:
            r.violate(f"DAG.{name} / AsyncDAG.{name}: signatures differ", fa.loc(), "", {"sync": _signature(fa), "async": _signature(fb)})
    # __call__: the run tail (after the description branch / the keyword-argument refusal)
    fa, fb = _pair(ctx, "DAG", "AsyncDAG", "__call__")

    def tail(f: FuncInfo) -> List[ast.stmt]:
        body = [s for s in f.node.body if not (isinstance(s, ast.Expr) and isinstance(s.value, ast.Constant))]
        # drop leading statements up to and including the last top-level `if`
        idx = max([i for i, s in enumerate(body) if isinstance(s, ast.If)], default=-1)
        return body[idx + 1:]

    _compare(r, "DAG.__call__ / AsyncDAG.__call__ (execution tail)", fa, fb, _summary(fa, tail(fa)), _summary(fb, tail(fb)))
    # both refuse keyword arguments outside a description
    for f in (fa, fb):
        kw = f.node.args.kwarg.arg if f.node.args.kwarg else None
        refuses = any(isinstance(n, ast.If) and kw in names_in(n.test) and any(isinstance(x, ast.Raise) for x in ast.walk(n))
                      for n in f.node.body)
        r.ob(refuses, {f"{f.short} refuses keyword arguments": refuses})
    return r


def sib_exec(ctx: Ctx) -> RuleResult:
    r = RuleResult("SIB-EXEC")
    for name in ("setup", "__call__"):
        fa, fb = _pair(ctx, "DAGExecution", "AsyncDAGExecution", name)
        _compare(r, f"DAGExecution.{name} / AsyncDAGExecution.{name}", fa, fb, _summary(fa), _summary(fb))
    return r


def sib_wait(ctx: Ctx) -> RuleResult:
    from .sch import model

    r = RuleResult("SIB-WAIT")
    m = model(ctx)
    hs = sorted(m.helpers.values(), key=lambda h: h.kind)
    r.require(len(hs) == 2 and {h.kind for h in hs} == {"async", "conc"}, "expected one wait helper per future kind")
    a, b = hs[1].fn, hs[0].fn  # conc, async
    _compare(r, f"{a.name} / {b.name}", a, b, _summary(a), _summary(b))
    # the helpers are internal and called positionally: parameter names may differ, order and types may not
    oks = _signature(a, names=False) == _signature(b, names=False)
    r.ob(oks, {"signatures equal (order and types)": oks})
    if not oks:
        r.violate(f"{a.name} / {b.name}: parameter order or types differ", a.loc(), "", {"sync": _signature(a, False), "async": _signature(b, False)})
    return r


def sib_drive(ctx: Ctx) -> RuleResult:
    from .sch import model

    r = RuleResult("SIB-DRIVE")
    m = model(ctx)
    drivers = [f for f in pkg_funcs(ctx) if f.cls is None and not f.is_async and any(q == m.fn.qualname for _, q in ctx.calls_in(f))]
    r.require(len(drivers) == 1, f"synchronous driver of the scheduler coroutine: found {[d.short for d in drivers]}")
    d = drivers[0]
    body = [s for s in d.node.body if not (isinstance(s, ast.Expr) and isinstance(s.value, ast.Constant))]
    ok = len(body) == 1 and isinstance(body[0], ast.Return) and isinstance(body[0].value, ast.Call) \
        and (dotted(body[0].value.func) or "") in ("asyncio.run",) and len(body[0].value.args) == 1 \
        and isinstance(body[0].value.args[0], ast.Call)
    r.ob(ok, {"driver": norm_src(body[0])[:120] if body else None})
    if not ok:
        raise Undecided(f"{d.short}: not of the form 'return asyncio.run(<scheduler>(...))'")
    inner = body[0].value.args[0]
    sp = [p.arg for p in m.fn.node.args.args + m.fn.node.args.kwonlyargs]
    dp = [p.arg for p in d.node.args.args + d.node.args.kwonlyargs]
    for p in sp:
        a = arg_for_param(m.fn.node, inner, p)
        okp = a is not None and dotted(a) == p and p in dp
        r.ob(okp, {"forwards": p, "as": norm_src(a) if a is not None else None})
        if not okp:
            r.violate(f"{d.short}: parameter '{p}' is not forwarded unchanged to the scheduler coroutine", d.loc(inner),
                      "the synchronous flavour must drive the very same coroutine with the same four arguments", norm_src(inner))
    return r


PARALLEL = ("target_nodes", "exclude_nodes", "root_nodes")


def sib_fwd(ctx: Ctx) -> RuleResult:
    """Parallel-parameter forwarding: where the callee takes the three selection lists and the caller holds them, all are passed."""
    r = RuleResult("SIB-FWD")
    n = 0
    for f in pkg_funcs(ctx):
        a = f.node.args
        fparams = {p.arg for p in a.posonlyargs + a.args + a.kwonlyargs}
        holds_self = set()
        if f.cls is not None:
            flds = ctx.P.all_fields(f.cls)
            holds_self = {p for p in PARALLEL if p in flds}
        for call, q in ctx.calls_in(f):
            callee = ctx.P.funcs.get(q) if q in ctx.P.funcs else None
            if q in ctx.P.classes:
                c = ctx.P.classes[q]
                cfields = ctx.P.all_fields(c)
                cparams = set(cfields)
                callee_node = None
            elif callee is not None:
                ca = callee.node.args
                cparams = {p.arg for p in ca.posonlyargs + ca.args + ca.kwonlyargs}
                callee_node = callee.node
            else:
                continue
            if not set(PARALLEL) <= cparams:
                continue
            held = {p for p in PARALLEL if p in fparams} | holds_self
            if not held:
                continue
            n += 1
            passed = {}
            for p in PARALLEL:
                av = next((k.value for k in call.keywords if k.arg == p), None)
                if av is None and callee_node is not None:
                    av = arg_for_param(callee_node, call, p, skip_self=callee.cls is not None and isinstance(call.func, ast.Attribute))
                passed[p] = av
            missing = [p for p in PARALLEL if p in held and passed[p] is None]
            # values known to be None on this path need not be forwarded
            if missing:
                from .ref import _if_chains

                chain = _if_chains(f.node)
                st = next((s for s in iter_own_nodes(f.node) if isinstance(s, (ast.Assign, ast.AnnAssign, ast.Expr, ast.Return))
                           and any(call is x for x in ast.walk(s)) and id(s) in chain), None)
                tests = [norm_src(t) for t, v in (chain.get(id(st), ()) if st is not None else ())]
                none_known = set()
                for s in iter_own_nodes(f.node):
                    if isinstance(s, ast.If) and any(isinstance(b, ast.Raise) for b in s.body) and st is not None and s.lineno < st.lineno:
                        for p in PARALLEL:
                            if f"self.{p} is not None" in norm_src(s.test) or f"{p} is not None" in norm_src(s.test):
                                none_known.add(p)
                missing = [p for p in missing if p not in none_known]
            callee_name = callee.short if callee is not None else q.split(".")[-1]
            r.ob(not missing, {"call": norm_src(call)[:100], "in": f.short, "forwards": sorted(p for p in PARALLEL if passed[p] is not None)})
            if missing:
                r.violate(f"{f.short}: selection parameter(s) {missing} not forwarded to {callee_name}", f.loc(call),
                          "the caller holds the three selection lists and the callee accepts them, but not all are passed: the part of "
                          "the selection that is dropped is silently ignored", norm_src(call))
            # forwarded under the right name
            for p in PARALLEL:
                av = passed[p]
                if av is not None and p in held:
                    okn = dotted(av) in (p, f"self.{p}")
                    if not okn and dotted(av) in [x for x in PARALLEL] + [f"self.{x}" for x in PARALLEL]:
                        r.violate(f"{f.short}: selection parameter '{p}' receives '{norm_src(av)}'", f.loc(call), "crossed selection lists", norm_src(call))
    r.require(n >= 5, f"only {n} call sites with the three selection parameters found")
    return r


def sib_fwd_sched(ctx: Ctx) -> RuleResult:
    """Every entry into the scheduler passes all four arguments, the bound being the DAG's public max_concurrency field."""
    from .sch import model

    r = RuleResult("SIB-FWD-SCHED")
    m = model(ctx)
    sp = [p.arg for p in m.fn.node.args.args + m.fn.node.args.kwonlyargs]
    targets = {m.fn.qualname} | {f.qualname for f in pkg_funcs(ctx) if f.cls is None and any(q == m.fn.qualname for _, q in ctx.calls_in(f))}
    base = ctx.P.classes[ctx.cls_q("BaseDAG")]
    n = 0
    for f in pkg_funcs(ctx):
        if f.qualname in targets:
            continue
        for call, q in ctx.calls_in(f):
            if q not in targets:
                continue
            n += 1
            callee = ctx.P.funcs[q]
            for p in sp:
                a = arg_for_param(callee.node, call, p)
                r.ob(a is not None, {"entry": f.short, "passes": p, "as": norm_src(a) if a is not None else None})
                if a is None:
                    r.violate(f"{f.short}: scheduler entered without '{p}'", f.loc(call), "", norm_src(call))
                elif p == m.bound_name:
                    okb = isinstance(a, ast.Attribute) and dotted(a.value) in ("self", "self.dag") and a.attr in base.fields
                    # (`self.dag.<field>`: the same live field of the DAG, read on the executor's side)
                    if not okb:
                        r.violate(f"{f.short}: the scheduler's bound is '{norm_src(a)}', not the DAG's max_concurrency field", f.loc(call),
                                  "the limit configured on the DAG (constructor, config_from_dict, attribute) must be the one the "
                                  "scheduler enforces; a private copy taken at construction ignores later re-configuration", norm_src(a))
    r.require(n >= 4, f"only {n} entries into the scheduler")
    # the field is the one re-configuration writes
    cf = ctx.method("BaseDAG", "config_from_dict")
    wr = [x for x in iter_own_nodes(cf.node) if isinstance(x, ast.Assign) and norm_src(x.targets[0]) == f"self.{m.bound_name}"]
    r.ob(len(wr) == 1, {"config_from_dict writes": f"self.{m.bound_name}"})
    return r


BLOCKING_EXT = ("ext:concurrent.futures.wait", "ext:time.sleep", "ext:concurrent.futures.as_completed")


def sib_block(ctx: Ctx) -> RuleResult:
    """Blocking primitives reachable from the scheduler coroutine."""
    from .sch import model

    r = RuleResult("SIB-BLOCK")
    m = model(ctx)
    r.require(m.fn.is_async, "the scheduler is not a coroutine function")
    seen = set()

    def blocking_in(f: FuncInfo) -> List[Tuple[ast.Call, str]]:
        out = []
        for call, q in ctx.calls_in(f):
            if q in BLOCKING_EXT:
                out.append((call, q[4:]))
            elif q and q.startswith("ext:") and q.endswith(".acquire"):
                out.append((call, q[4:]))
        return out

    for call, q in ctx.calls_in(m.fn):
        if q in BLOCKING_EXT:
            r.ob(False)
            r.violate(f"{m.fn.short}: blocking primitive {q[4:]} called in the coroutine", m.fn.loc(call),
                      "the event loop cannot serve other coroutines while the scheduler blocks", norm_src(call))
        if q in ctx.P.funcs and not ctx.P.funcs[q].is_async:
            g = ctx.P.funcs[q]
            for c2, what in blocking_in(g):
                key = (g.qualname, what)
                if key in seen:
                    continue
                seen.add(key)
                r.ob(False, {"coroutine": m.fn.short, "calls": g.short, "which blocks on": what})
                r.violate(f"scheduler coroutine -> {g.name}: {what} blocks the event loop", g.loc(c2),
                          "while thread futures are waited for with a blocking primitive, async-thread nodes that finish cannot be "
                          "observed and other coroutines of the loop are not served (documented limitation: use async-thread for all "
                          "nodes of an AsyncDAG)", norm_src(c2))
    # the pool's exit waits for the running workers (shutdown(wait=True)): inside the coroutine it may only be reached when nothing is
    # in flight any more, i.e. after the loop on the normal path - not through `with` / `finally`, which also run when a node failed
    for n in iter_own_nodes(m.fn.node):
        if isinstance(n, ast.With) and any(it.context_expr is m.pool_ctor or dotted(it.context_expr) == m.pool_var for it in n.items) \
                and any(isinstance(x, ast.Await) for st in n.body for x in ast.walk(st)):
            r.ob(False, {"pool exit on every path of the coroutine": "with"})
            r.violate(f"{m.fn.short}: the thread pool is left through a blocking `with` around awaits", m.fn.loc(n),
                      "when a node fails, ThreadPoolExecutor.__exit__ waits inside the coroutine for the sibling nodes still running: the "
                      "event loop serves nothing else until they finish, and the error surfaces only then", norm_src(n.items[0].context_expr))
        if isinstance(n, ast.Try) and n.finalbody and any(isinstance(x, ast.Await) for st in n.body for x in ast.walk(st)):
            for x in (y for st in n.finalbody for y in ast.walk(st)):
                if isinstance(x, ast.Call) and isinstance(x.func, ast.Attribute) and x.func.attr in ("__exit__", "shutdown") \
                        and dotted(x.func.value) == m.pool_var:
                    nowait = any(k.arg == "wait" and isinstance(k.value, ast.Constant) and k.value.value is False for k in x.keywords)
                    r.ob(nowait, {"pool exit on every path of the coroutine": norm_src(x)})
                    if not nowait:
                        r.violate(f"{m.fn.short}: the thread pool is shut down (waiting) in a `finally` around awaits", m.fn.loc(x),
                                  "when a node fails the coroutine blocks the event loop until the sibling nodes still running finish",
                                  norm_src(x))
    n_await = sum(1 for n in iter_own_nodes(m.fn.node) if isinstance(n, ast.Await))
    r.ob(n_await >= 1, {"await points in the scheduler": n_await})
    return r


def sib_ctor(ctx: Ctx) -> RuleResult:
    """Every kind of ExecNode can be rebuilt from its own field values: where a node is re-created with type(node)(**values),
    the constructor of every class of the family accepts every field name (explicitly, or through **kwargs)."""
    r = RuleResult("SIB-CTOR")
    base = ctx.P.classes[ctx.cls_q("ExecNode")]
    keys = set(base.fields)
    r.require(len(keys) >= 10, f"only {len(keys)} ExecNode fields found")
    sites = []
    for f in pkg_funcs(ctx):
        for n in iter_own_nodes(f.node):
            if isinstance(n, ast.Call) and isinstance(n.func, ast.Call) and dotted(n.func.func) == "type" and len(n.func.args) == 1 \
                    and any(k.arg is None for k in n.keywords):
                t = ctx.type_of(f, n.func.args[0])
                if t and t[0] in ("cls", "inst") and ctx.P.is_subclass(t[1], base.qualname):
                    sites.append((f, n, t[1]))
                elif dotted(n.func.args[0]) == "self" and f.cls is not None and ctx.P.is_subclass(f.cls.qualname, base.qualname):
                    sites.append((f, n, f.cls.qualname))
    r.require(len(sites) >= 2, f"only {len(sites)} rebuild sites type(node)(**values) found")
    for f, n, static_q in sites:
        for c in ctx.P.subclasses(static_q):
            init = ctx.P.find_method(c, "__init__")
            if init is None:
                r.ob(True, {"site": f.short, "class": c.name, "constructor": "generated from the fields"})
                continue
            a = init.node.args
            params = {x.arg for x in a.posonlyargs + a.args + a.kwonlyargs} - {"self"}
            missing = sorted(keys - params) if a.kwarg is None else []
            r.ob(not missing, {"site": f.short, "class": c.name, "constructor": init.short,
                               "accepts": "**" + a.kwarg.arg if a.kwarg is not None else sorted(params)})
            if missing:
                r.violate(f"{init.short}: cannot be rebuilt by {f.short} (type(node)(**values)): does not accept {missing[:4]}...",
                          f.loc(n),
                          "nodes of this kind exist in user DAGs (constant return values); splicing such a DAG into another one, or "
                          "re-configuring it, re-creates every node from its field values and fails with TypeError", norm_src(n))
    return r


def sib_ctorargs(ctx: Ctx) -> RuleResult:
    """Where the library builds a DAG or an AsyncDAG from the same ingredients (the constructor, compose), the two constructor calls
    are given the same arguments: an argument passed to one flavour only (max_concurrency ...) silently takes its default in the other."""
    r = RuleResult("SIB-CTORARGS")
    n = 0
    for f in ctx.funcs():
        if f.module.name.endswith("_twzsa_control"):
            continue
        calls = {"DAG": [], "AsyncDAG": []}
        for c in iter_own_nodes(f.node):
            if isinstance(c, ast.Call) and dotted(c.func) in calls:
                calls[dotted(c.func)].append(c)
        if len(calls["DAG"]) != 1 or len(calls["AsyncDAG"]) != 1:
            continue
        n += 1
        a, b = calls["DAG"][0], calls["AsyncDAG"][0]
        ka = {k.arg if k.arg else "**" + norm_src(k.value): norm_src(k.value) for k in a.keywords}
        kb = {k.arg if k.arg else "**" + norm_src(k.value): norm_src(k.value) for k in b.keywords}
        ok = ka == kb and [norm_src(x) for x in a.args] == [norm_src(x) for x in b.args]
        r.ob(ok, {"in": f.short, "DAG(..) and AsyncDAG(..) built from the same arguments": ok})
        if not ok:
            only = sorted(set(ka.items()) ^ set(kb.items()))
            r.violate(f"{f.short}: DAG(..) and AsyncDAG(..) are not built from the same arguments", f.loc(b),
                      "the flavour that misses an argument runs with that argument's default: e.g. @dag(is_async=True, max_concurrency=4) "
                      "schedules one node at a time", only)
    r.require(n >= 2, f"functions building both flavours: {n} found (make_dag, compose expected)")
    return r


def sib_overload(ctx: Ctx) -> RuleResult:
    """The typing overloads of a function and its implementation state the same default for the same parameter.

    The overloads are what the documentation and the IDE show (`is_sequential: bool = cfg.TAWAZI_IS_SEQUENTIAL`); the
    implementation's default is what runs. When they differ the configured default silently does not apply."""
    r = RuleResult("SIB-OVERLOAD")
    groups = 0
    for m in ctx.P.modules.values():
        if m.name.endswith("_twzsa_control"):
            continue
        scopes = [m.tree.body] + [c.body for c in m.tree.body if isinstance(c, ast.ClassDef)]
        for body in scopes:
            by_name: Dict[str, List[ast.AST]] = {}
            for st in body:
                if isinstance(st, (ast.FunctionDef, ast.AsyncFunctionDef)):
                    by_name.setdefault(st.name, []).append(st)
            for name, defs in by_name.items():
                ovs = [d for d in defs if any((dotted(x) or "").split(".")[-1] == "overload" for x in d.decorator_list)]
                impl = [d for d in defs if d not in ovs]
                if not ovs or len(impl) != 1:
                    continue
                groups += 1

                def defaults(d) -> Dict[str, ast.AST]:
                    a = d.args
                    pos = a.posonlyargs + a.args
                    out = {p_.arg: v for p_, v in zip(pos[len(pos) - len(a.defaults):], a.defaults)}
                    out.update({p_.arg: v for p_, v in zip(a.kwonlyargs, a.kw_defaults) if v is not None})
                    return out

                di = defaults(impl[0])
                for ov in ovs:
                    a_ = ov.args
                    discriminators = {p_.arg for p_ in a_.posonlyargs + a_.args + a_.kwonlyargs
                                      if p_.annotation is not None and "Literal[" in norm_src(p_.annotation)}
                    for pn, dv in defaults(ov).items():
                        if isinstance(dv, ast.Constant) and dv.value is Ellipsis:
                            continue
                        if pn in discriminators:
                            continue  # `flag: Literal[True] = True` selects this overload; it is not a statement about the default
                        if pn not in di:
                            continue
                        ok = norm_src(dv) == norm_src(di[pn])
                        r.ob(ok, {"function": f"{m.name.split('.', 1)[-1]}.{name}", "parameter": pn, "overload": norm_src(dv), "implementation": norm_src(di[pn])})
                        if not ok:
                            r.violate(f"{m.name.split('.', 1)[-1]}.{name}: default of '{pn}' differs between the overload and the implementation",
                                      f"{m.rel}:{impl[0].lineno}", "the overload documents the default; the implementation's default is "
                                      "what a call without the keyword gets (e.g. the environment's TAWAZI_IS_SEQUENTIAL / TAWAZI_DEFAULT_RESOURCE "
                                      "no longer applies to plainly decorated functions)", {"overload": norm_src(dv), "implementation": norm_src(di[pn])})
    r.require(groups >= 2, f"overloaded functions found: {groups} (xn and dag expected)")
    return r


RULES = {"SIB-CTORARGS": sib_ctorargs, "SIB-OVERLOAD": sib_overload, "SIB-CTOR": sib_ctor, "SIB-DAG": sib_dag, "SIB-EXEC": sib_exec, "SIB-WAIT": sib_wait, "SIB-DRIVE": sib_drive, "SIB-FWD": sib_fwd,
         "SIB-FWD-SCHED": sib_fwd_sched, "SIB-BLOCK": sib_block}
