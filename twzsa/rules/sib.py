"""sib rules."""
RULES = {}
