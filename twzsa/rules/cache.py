"""CACHE - restart from a cache file (DESIGN 4.7)."""
from __future__ import annotations

import ast
from typing import List, Optional

from ..ctx import Ctx, arg_for_param, dotted, names_in
from ..loader import FuncInfo, iter_own_nodes, own_walk
from ..report import RuleResult, Undecided, norm_src


def _loader(ctx: Ctx):
    """(function, assignment statement) of the pickle.load whose file is the executor's from_cache.  A helper whose only job is to open
    the file and hand back what pickle.load returns is looked through: the assignment of its result in the caller is the loader site."""
    hits = []
    wrappers = {}
    any_call = False
    for f in ctx.funcs():
        for n in iter_own_nodes(f.node):
            if isinstance(n, ast.Call) and (ctx.T.resolve_callee(f, n) or "") == "ext:pickle.load":
                any_call = True
            if isinstance(n, ast.Assign) and isinstance(n.value, ast.Call) and (ctx.T.resolve_callee(f, n.value) or "") == "ext:pickle.load":
                hits.append((f, n))
            if isinstance(n, ast.Return) and isinstance(n.value, ast.Call) and (ctx.T.resolve_callee(f, n.value) or "") == "ext:pickle.load" \
                    and not f.node.decorator_list:
                wrappers[f.qualname] = f
    for q, w in wrappers.items():
        for f2, call in ctx.callers_of(q):
            for n in iter_own_nodes(f2.node):
                if isinstance(n, ast.Assign) and n.value is call:
                    hits.append((f2, n))
    if not hits and any_call:
        raise Undecided("pickle.load is called, but its result is not bound by a plain assignment (form not modelled)")
    return hits


def cache_flow(ctx: Ctx) -> RuleResult:
    r = RuleResult("CACHE-FLOW")
    # the file is read at every restart: the function that unpickles it is not memoised (a path that was written again by a later caching
    # run must not come back with the content of the first read)
    for f_ in ctx.funcs():
        if any(isinstance(n, ast.Call) and (ctx.T.resolve_callee(f_, n) or "") == "ext:pickle.load" for n in iter_own_nodes(f_.node)):
            memo = [d for d in f_.node.decorator_list if any(w in norm_src(d) for w in ("lru_cache", "cache", "memoize", "memoise"))]
            r.ob(not memo, {"in": f_.short, "reads the cache file at every call (not memoised)": not memo})
            if memo:
                r.violate(f"{f_.short}: the function that unpickles the cache file is memoised ({norm_src(memo[0])[:40]})", f_.loc(),
                          "a restart from a path that a later caching run has rewritten gets the content of the first read (and the very same "
                          "objects): the stale results of an earlier run", norm_src(memo[0]))
                return r
    hits = _loader(ctx)
    if not hits:
        r.ob(False)
        r.violate("no pickle.load in the package", "tawazi/_dag/dag.py", "from_cache is never read: nothing can be reused", None)
        return r
    r.require(len(hits) <= 3, "more than three pickle.load sites")

    class _Done(Exception):
        pass

    def _one(f, ld) -> int:
        """The flow of one loader site; returns the number of executor entry points that hand its merged map to run_subgraph."""
        sinks = 0
        var = dotted(ld.targets[0])
        r.require(var is not None, "loaded mapping not bound to a name")
        r.ob(True, {"source": norm_src(ld), "in": f.short})
        # 1. entries of the loaded mapping are written into a mapping M
        M = None
        how = None
        for n in iter_own_nodes(f.node):
            if isinstance(n, ast.For) and isinstance(n.iter, ast.Call) and isinstance(n.iter.func, ast.Attribute) \
                    and n.iter.func.attr == "items" and dotted(n.iter.func.value) == var and isinstance(n.target, ast.Tuple):
                k, v = [dotted(x) for x in n.target.elts]
                for b in own_walk(n):
                    if isinstance(b, ast.Call) and isinstance(b.func, ast.Attribute) and b.func.attr in ("force_set", "__setitem__", "setdefault") \
                            and len(b.args) == 2 and dotted(b.args[0]) == k and dotted(b.args[1]) == v:
                        M, how = dotted(b.func.value), b.func.attr
                    if isinstance(b, ast.Assign) and isinstance(b.targets[0], ast.Subscript) and dotted(b.targets[0].slice) == k \
                            and dotted(b.value) == v:
                        M, how = dotted(b.targets[0].value), "item assignment"
            if isinstance(n, ast.Call) and isinstance(n.func, ast.Attribute) and n.func.attr == "update" and n.args and dotted(n.args[0]) == var:
                M, how = dotted(n.func.value), "update"
        # every entry of the file is merged: the loop does not filter them by the executor's own selection
        from .ref import _if_chains as _chains_of

        ch_ = _chains_of(f.node)
        for n in iter_own_nodes(f.node):
            if isinstance(n, ast.For) and isinstance(n.iter, ast.Call) and isinstance(n.iter.func, ast.Attribute) \
                    and n.iter.func.attr == "items" and dotted(n.iter.func.value) == var:
                loop_tests = ch_.get(id(n), ())
                for b in own_walk(n):
                    st_ = None
                    if isinstance(b, ast.Expr) and isinstance(b.value, ast.Call) and isinstance(b.value.func, ast.Attribute) \
                            and b.value.func.attr in ("force_set", "__setitem__", "setdefault"):
                        st_ = b
                    elif isinstance(b, ast.Assign) and isinstance(b.targets[0], ast.Subscript):
                        st_ = b
                    if st_ is None:
                        continue
                    extra = [t for t, v_ in ch_.get(id(st_), ()) if all(t is not t0 for t0, _ in loop_tests)]
                    sel = [t for t in extra if any(isinstance(x, ast.Attribute) and x.attr in ("graph", "target_nodes", "exclude_nodes", "root_nodes", "xn_dict")
                                                      for x in ast.walk(t))]
                    r.ob(not sel, {"merge of the cached entries filtered by": [norm_src(t) for t in extra] or None})
                    # ... nor by the entry itself: whatever the key and the value (None, 0, '' are results like any other), the entry is merged
                    from .val import reach_conditions

                    ent = {x.id for x in ast.walk(n.target) if isinstance(x, ast.Name)}
                    inner = reach_conditions(n, st_) or []
                    dep = [(c_, p_) for c_, p_ in inner if ent & names_in(c_)]
                    r.ob(not dep, {"in": f.short, "cached entry merged whatever its key / value": not dep})
                    if dep:
                        r.violate(f"{f.short}: a cached entry is merged only when {('' if dep[0][1] else 'not ') + norm_src(dep[0][0])}", f.loc(st_),
                                  "an entry of the cache file that fails the test never reaches the scheduler: the node is in the file and is "
                                  "executed again all the same (a node that really returned None / 0 / '' repeats its side effects)",
                                  norm_src(dep[0][0]))
                    if sel:
                        r.violate(f"{f.short}: cached entries are merged only for nodes of this executor's selection", f.loc(st_),
                                  "a result that is in the file but outside the restart's selection is dropped: the value comes back as None, "
                                  "and a cache file re-written by this run loses it (the next restart recomputes it)", norm_src(sel[0]))
        merge = _display_merge(f, var)
        if M is None and merge is not None:
            M, how = merge["target"], "dict display merge"
        r.ob(M is not None, {"entries written into": M, "by": how})
        if M is None:
            r.violate(f"{f.short}: the unpickled mapping is not merged, entry by entry, into a results map", f.loc(ld),
                      "the cached id -> value entries never reach the results handed to the scheduler: every node is silently "
                      "recomputed (or the restart crashes)", norm_src(ld))
            raise _Done()
        # 2. M reaches the scheduler: returned and passed by the callers as the results argument of run_subgraph, or M is the
        #    attribute the callers pass
        sinks = 0
        if "." in M:
            raise Undecided(f"merged map is an attribute ({M}); flow through attributes is not modelled")
        # 2a. the loader written (or expanded) in place: the merged map is handed to run_subgraph in this very function
        direct = 0
        for c2, q2 in ctx.calls_in(f):
            if q2 in ctx.P.funcs and ctx.P.funcs[q2].name == "run_subgraph":
                callee = ctx.P.funcs[q2]
                a = arg_for_param(callee.node, c2, callee.node.args.args[2].arg, skip_self=True)
                if a is not None and dotted(a) == M:
                    direct += 1
        if direct:
            r.ob(True, {"in": f.short, "merged map handed to run_subgraph in place": direct})
            return direct
        rets = [n for n in iter_own_nodes(f.node) if isinstance(n, ast.Return) and n.value is not None]
        returned = [x for x in rets if dotted(x.value) == M]
        ret_pos = None
        if not returned and rets and all(isinstance(x.value, ast.Tuple) for x in rets):
            # returned as one element of a tuple (with the graph of the run, ...): callers unpack it position-wise
            poss = {i for x in rets for i, e_ in enumerate(x.value.elts) if dotted(e_) == M}
            if len(poss) == 1 and all(any(dotted(e_) == M for e_ in x.value.elts) for x in rets):
                ret_pos = poss.pop()
                returned = list(rets)
        r.ob(bool(returned) and len(returned) == len(rets), {"returned": bool(returned), "as element": ret_pos})
        if not returned:
            r.violate(f"{f.short}: the merged results are dropped (not returned)", f.loc(), "the cached entries never reach the scheduler", M)
            raise _Done()
        # M must start from the executor's results so that constants/setup results are kept
        init = [n for n in iter_own_nodes(f.node) if isinstance(n, ast.Assign) and dotted(n.targets[0]) == M]
        r.ob(len(init) >= 1, {"merged map initialised from": [norm_src(x.value) for x in init]})
        for f2, call in ctx.callers_of(f.qualname):
            st = None
            unpacked = None
            for n in iter_own_nodes(f2.node):
                if isinstance(n, ast.Assign) and n.value is call and isinstance(n.targets[0], ast.Name) and ret_pos is None:
                    st = n
                if isinstance(n, ast.Assign) and n.value is call and isinstance(n.targets[0], (ast.Tuple, ast.List)) and ret_pos is not None \
                        and ret_pos < len(n.targets[0].elts) and isinstance(n.targets[0].elts[ret_pos], ast.Name):
                    st = n
                    unpacked = n.targets[0].elts[ret_pos].id
            if st is None:
                r.ob(False, {"caller": f2.short})
                r.violate(f"{f2.short}: the results prepared by {f.name} are discarded", f2.loc(call),
                          "the cached entries never reach the scheduler", norm_src(call))
                continue
            name = unpacked if unpacked is not None else st.targets[0].id
            passed = False
            for c2, q2 in ctx.calls_in(f2):
                if q2 in ctx.P.funcs and ctx.P.funcs[q2].name == "run_subgraph":
                    callee = ctx.P.funcs[q2]
                    pr = callee.node.args.args[2].arg
                    a = arg_for_param(callee.node, c2, pr, skip_self=True)
                    if a is not None and dotted(a) == name:
                        passed = True
                        sinks += 1
            r.ob(passed, {"caller": f2.short, "passes the merged results to run_subgraph": passed})
            if not passed:
                r.violate(f"{f2.short}: run_subgraph does not receive the results prepared by {f.name}", f2.loc(call),
                          "the scheduler starts from the DAG's own results: cached nodes are recomputed", None)
        if r.findings:
            raise _Done()
        return sinks

    total = 0
    try:
        for f, ld in hits:
            total += _one(f, ld)
    except _Done:
        return r
    sinks = total
    if True:
        r.require(sinks >= 2, f"only {sinks} executor entry points consume the merged results (expected sync and async)")
        # 3. inside every run_subgraph the supplied results (when there are any) are what the scheduler starts from
        from .ref import _if_chains

        for rs in [g for g in ctx.funcs() if g.name == "run_subgraph" and g.cls is not None]:
            pr = rs.node.args.args[2].arg
            chains = _if_chains(rs.node)
            sched = [c for c, q in ctx.calls_in(rs) if (dotted(c.func) or "").split(".")[-1] in ("sync_execute", "async_execute")]
            r.require(len(sched) == 1, f"{rs.short}: scheduler entry not found")
            rv = next((k.value for k in sched[0].keywords if k.arg == "results"), None)
            if not isinstance(rv, ast.Name):
                raise Undecided(f"{rs.short}: results argument of the scheduler is not a name")
            def _none_test(t: ast.AST, v: bool) -> Optional[bool]:
                """True: the test (taken with outcome v) says 'pr is None'; False: says 'pr is not None'; None: says nothing about it."""
                while isinstance(t, ast.UnaryOp) and isinstance(t.op, ast.Not):
                    t, v = t.operand, not v
                if isinstance(t, ast.Compare) and len(t.ops) == 1 and dotted(t.left) == pr and isinstance(t.comparators[0], ast.Constant) \
                        and t.comparators[0].value is None and isinstance(t.ops[0], (ast.Is, ast.IsNot)):
                    return isinstance(t.ops[0], ast.Is) == v
                return None

            def flows(e: ast.AST, at: ast.AST, depth: int = 0) -> Optional[bool]:
                """Assuming the caller supplied results (pr is not None): does e derive from pr? None = cannot tell."""
                if depth > 6:
                    return None
                if isinstance(e, ast.Name):
                    if e.id == pr and ctx.entry_reaches(rs, pr, at):
                        rd = [d for d in ctx.reaching_defs(rs, pr, at) if isinstance(d, ast.Assign)]
                        if not rd:
                            return True
                    ds = [d for d in ctx.reaching_defs(rs, e.id, at) if isinstance(d, ast.Assign)]
                    verdicts = []
                    for d in ds:
                        arm = [x for x in (_none_test(t, v) for t, v in chains.get(id(d), ())) if x is not None]
                        if arm and arm[-1] is True:
                            continue  # only reached when nothing was supplied
                        verdicts.append(flows(d.value, d, depth + 1))
                    if e.id == pr and ctx.entry_reaches(rs, pr, at):
                        verdicts.append(True)
                    if not verdicts:
                        return None
                    if any(x is False for x in verdicts):
                        return False
                    return True if all(x is True for x in verdicts) else None
                if isinstance(e, ast.IfExp):
                    nt = _none_test(e.test, True)
                    if nt is True:
                        return flows(e.orelse, at, depth + 1)
                    if nt is False:
                        return flows(e.body, at, depth + 1)
                    a_, b_ = flows(e.body, at, depth + 1), flows(e.orelse, at, depth + 1)
                    return False if False in (a_, b_) else (True if a_ and b_ else None)
                if isinstance(e, ast.Call) and e.args:
                    return flows(e.args[0], at, depth + 1)
                if isinstance(e, ast.Attribute):
                    return False
                return None

            verdict = flows(rv, sched[0])
            r.ob(verdict is True, {"in": rs.short, "with results supplied, the scheduler starts from them": verdict})
            if verdict is False:
                r.violate(f"{rs.short}: with results supplied by the caller the scheduler still starts from the DAG's own results",
                          rs.loc(sched[0]), "the cached entries merged by the executor are dropped in this flavour: every cached node is executed again",
                          norm_src(sched[0])[:100])
            elif verdict is None:
                raise Undecided(f"{rs.short}: cannot follow the supplied results to the scheduler's results argument")
    return r


def cache_entry(ctx: Ctx) -> RuleResult:
    """Every entry point of an executor that starts the scheduler consults the cache file.

    The file is read in one function (the loader of CACHE-FLOW). An executor method that reaches the scheduler without reaching
    the loader executes, for an executor created with from_cache, nodes whose results are in the file."""
    r = RuleResult("CACHE-ENTRY")
    hits = _loader(ctx)
    r.require(len(hits) == 1, f"pickle.load sites: {len(hits)}")
    lf, _ = hits[0]
    r.require(lf.cls is not None, "the cache file is not read by a method of the executor")
    base = lf.cls.qualname
    execs = [c for q, c in ctx.P.classes.items() if q == base or ctx.P.is_subclass(q, base)]
    # functions that reach the scheduler / the loader (fix-point over resolved calls)
    callees = {f.qualname: {q for _, q in ctx.calls_in(f) if q in ctx.P.funcs} for f in ctx.funcs()}
    # a method called on `self.dag` resolves to the declared class; the twins override it: add overriding methods
    for f in ctx.funcs():
        extra = set()
        for q in callees[f.qualname]:
            g = ctx.P.funcs[q]
            if g.cls is not None:
                for cq, c in ctx.P.classes.items():
                    if ctx.P.is_subclass(cq, g.cls.qualname) and g.name in c.methods:
                        extra.add(c.methods[g.name].qualname)
        callees[f.qualname] |= extra

    def closure(seed: set) -> set:
        out = set(seed)
        changed = True
        while changed:
            changed = False
            for q, cs in callees.items():
                if q not in out and cs & out:
                    out.add(q)
                    changed = True
        return out

    sched = {f.qualname for f in ctx.funcs() if f.cls is None and f.name in ("sync_execute", "async_execute")}
    r.require(len(sched) >= 1, "scheduler entry functions not found")
    to_sched = closure(sched)
    to_loader = closure({lf.qualname})
    n = 0
    for c in execs:
        for name, m in sorted(c.methods.items()):
            if name.startswith("_") and not (name.startswith("__") and name.endswith("__")):
                continue
            if m.qualname not in to_sched:
                continue
            n += 1
            ok = m.qualname in to_loader
            r.ob(ok, {"executor entry point": m.short, "reaches the scheduler": True, "consults the cache file": ok})
            if not ok:
                r.violate(f"{m.short}: starts the scheduler without consulting from_cache", m.loc(),
                          "on an executor created with from_cache this entry point executes nodes whose results are in the file "
                          f"(the file is read only by {lf.short})", None)
    r.require(n >= 2, f"executor entry points that reach the scheduler: {n} found, at least 2 expected")
    return r


def _display_merge(f: FuncInfo, var: str) -> Optional[dict]:
    """X = [StrictDict|dict]({**A, **B}) or A | B where one operand is the loaded mapping: {'target', 'cached_last', 'node'}."""
    for n in iter_own_nodes(f.node):
        if isinstance(n, ast.Assign) and isinstance(n.targets[0], ast.Name):
            v = n.value
            if isinstance(v, ast.Call) and dotted(v.func) in ("StrictDict", "dict") and len(v.args) == 1:
                v = v.args[0]
            if isinstance(v, ast.Dict) and v.keys and all(k is None for k in v.keys) and len(v.values) >= 2:
                names = [dotted(x) for x in v.values]
                if var in names:
                    return {"target": n.targets[0].id, "cached_last": names[-1] == var, "node": n}
            if isinstance(v, ast.BinOp) and isinstance(v.op, ast.BitOr) and var in (dotted(v.left), dotted(v.right)):
                return {"target": n.targets[0].id, "cached_last": dotted(v.right) == var, "node": n}
    return None


def cache_priority(ctx: Ctx) -> RuleResult:
    """Cached entries override what the results already hold (defaults, constants)."""
    r = RuleResult("CACHE-PRIORITY")
    hits = _loader(ctx)
    r.require(len(hits) == 1, "pickle.load site not found")
    f, ld = hits[0]
    var = dotted(ld.targets[0])
    merge = _display_merge(f, var)
    if merge is not None:
        ok = merge["cached_last"]
        r.ob(ok, {"merge": norm_src(merge["node"]), "cached entries last (they win)": ok})
        if not ok:
            r.violate(f"{f.short}: in the merge the values already present win over the cached ones", f.loc(merge["node"]),
                      "defaults / constants already in the results shadow the cached values: the restart mixes the default input with "
                      "results cached for another argument", norm_src(merge["node"]))
        return r
    writes = []
    for n in iter_own_nodes(f.node):
        if isinstance(n, ast.For) and isinstance(n.iter, ast.Call) and isinstance(n.iter.func, ast.Attribute) \
                and n.iter.func.attr == "items" and dotted(n.iter.func.value) == var:
            for b in own_walk(n):
                if isinstance(b, ast.Call) and isinstance(b.func, ast.Attribute) and b.func.attr in ("force_set", "setdefault", "__setitem__"):
                    writes.append((b, b.func.attr, n))
                if isinstance(b, ast.Assign) and isinstance(b.targets[0], ast.Subscript):
                    writes.append((b, "item", n))
    r.require(len(writes) == 1, "merge write not found")
    b, how, loop = writes[0]
    guarded = [x for x in own_walk(loop) if isinstance(x, ast.If) and any(b is y for y in ast.walk(x))
               and any(isinstance(o, ast.NotIn) for c in ast.walk(x.test) if isinstance(c, ast.Compare) for o in c.ops)]
    ok = how == "force_set" and not guarded
    if how == "item":
        t = ctx.type_of(f, b.targets[0].value)
        ok = not (t[0] == "dict" and len(t) == 4) and not guarded  # a StrictDict item write raises on an occupied key
    r.ob(ok, {"merge write": norm_src(b), "overrides existing entries": ok})
    if not ok:
        r.violate(f"{f.short}: a value already present wins over the cached one ({how})", f.loc(b),
                  "defaults / constants already in the results shadow the cached values: the restart mixes the default input with "
                  "results cached for another argument", norm_src(b))
    # the merge happens on a copy (the DAG's results must not be changed by an executor)
    cp = [n for n in iter_own_nodes(f.node) if isinstance(n, ast.Assign) and isinstance(n.value, ast.Call)
          and dotted(n.value.func) in ("copy", "deepcopy", "StrictDict", "dict") and dotted(n.targets[0]) == dotted(b.func.value if how != "item" else b.targets[0].value)]
    r.ob(bool(cp), {"merged into a copy": bool(cp)})
    if not cp:
        r.violate(f"{f.short}: cached entries are written into the DAG's own results", f.loc(b),
                  "later calls of the DAG see the cached values", None)
    return r


def _writer(ctx: Ctx):
    hits = []
    for f in ctx.funcs():
        for n in iter_own_nodes(f.node):
            if isinstance(n, ast.Call) and (ctx.T.resolve_callee(f, n) or "") == "ext:pickle.dump":
                hits.append((f, n))
    return hits


def cache_shape(ctx: Ctx) -> RuleResult:
    r = RuleResult("CACHE-SHAPE")
    ws = _writer(ctx)
    r.require(len(ws) == 1, "pickle.dump site not found")
    f, dump = ws[0]
    obj = dump.args[0]
    name = dotted(obj)
    r.require(name is not None, "dumped object not a name")
    srcs = [n for n in iter_own_nodes(f.node) if isinstance(n, ast.Assign) and dotted(n.targets[0]) == name]
    r.require(len(srcs) >= 1, "definition of the dumped object not found")
    p = f.node.args.args[1].arg
    for s in srcs:
        v = s.value
        ok = (isinstance(v, ast.DictComp) and isinstance(v.generators[0].iter, ast.Call) and norm_src(v.generators[0].iter) == f"{p}.items()"
              and dotted(v.key) == dotted(v.generators[0].target.elts[0]) and dotted(v.value) == dotted(v.generators[0].target.elts[1])) \
            or dotted(v) == p
        r.ob(ok, {"written": norm_src(v)})
        if not ok:
            r.violate(f"{f.short}: the cache file does not hold the id -> value mapping of the run", f.loc(s),
                      "the reader merges an id -> value mapping", norm_src(v))
    # the file is REPLACED by each caching run: opened for (binary) writing, not for appending / updating
    fh = dump.args[1] if len(dump.args) > 1 else None
    opens = [n for n in iter_own_nodes(f.node) if isinstance(n, (ast.With, ast.AsyncWith))
             for it in n.items if isinstance(it.context_expr, ast.Call) and dotted(it.context_expr.func) in ("open", "io.open")
             and fh is not None and dotted(it.optional_vars) == dotted(fh)]
    opens_calls = [it.context_expr for n in opens for it in n.items if isinstance(it.context_expr, ast.Call)]
    if opens_calls:
        oc = opens_calls[0]
        mode = oc.args[1] if len(oc.args) > 1 else next((k.value for k in oc.keywords if k.arg == "mode"), None)
        mv = mode.value if isinstance(mode, ast.Constant) else None
        okm = mv in ("wb", "bw", "w+b", "wb+")
        r.ob(okm, {"cache file opened with mode": mv})
        if mv is not None and not okm:
            r.violate(f"{f.short}: the cache file is opened with mode '{mv}'", f.loc(oc),
                      "a second caching run into the same path does not replace the file: pickle.load reads the FIRST object of the "
                      "file, so a restart returns the results of an earlier run (and executes nothing of what it should)", norm_src(oc))
        elif mv is None:
            raise Undecided(f"{f.short}: mode of the cache file is not a constant")
    # the files are the paths the user gave: no path surgery between cache_in / from_cache and open() (two checkpoints whose paths differ
    # only in what the surgery removes would be one file), and nothing opens the cache_in path for writing but the writer's own `with`
    SURGERY = ("with_suffix", "with_name", "with_stem", "splitext", "basename", "lower", "upper", "casefold", "stem", "strip", "rstrip", "replace")
    n_open = 0
    for g_ in ctx.funcs():
        if g_.module.name.endswith("_twzsa_control"):
            continue
        for oc in iter_own_nodes(g_.node):
            if not (isinstance(oc, ast.Call) and dotted(oc.func) in ("open", "io.open") and oc.args):
                continue
            pth = oc.args[0]
            fields = {x.attr for x in ast.walk(pth) if isinstance(x, ast.Attribute) and x.attr in ("cache_in", "from_cache")}
            if isinstance(pth, ast.Name):
                for d_ in ctx.reaching_defs(g_, pth.id, oc):
                    if isinstance(d_, ast.Assign):
                        fields |= {x.attr for x in ast.walk(d_.value) if isinstance(x, ast.Attribute) and x.attr in ("cache_in", "from_cache")}
                        pth = d_.value
            if not fields:
                continue
            n_open += 1
            cut = [x for x in ast.walk(pth) if (isinstance(x, ast.Attribute) and x.attr in SURGERY)
                   or (isinstance(x, ast.BinOp) and isinstance(x.op, ast.Add))]
            r.ob(not cut, {"in": g_.short, "cache file opened at": norm_src(pth)[:80]})
            if cut:
                r.violate(f"{g_.short}: the cache file is not the path the user gave ({norm_src(pth)[:60]})", g_.loc(oc),
                          "paths that differ only in the part that is rewritten (`ckpt.stage1` / `ckpt.stage2` under with_suffix) are one "
                          "file: a later caching run overwrites an earlier checkpoint and a restart reads another run's results", norm_src(oc)[:100])
            mode_ = oc.args[1] if len(oc.args) > 1 else next((k.value for k in oc.keywords if k.arg == "mode"), None)
            mv_ = mode_.value if isinstance(mode_, ast.Constant) and isinstance(mode_.value, str) else None
            writes = mv_ is not None and any(ch in mv_ for ch in "wax+")
            if writes and "cache_in" in fields:
                in_writer = g_.qualname == f.qualname and any(
                    isinstance(w_, (ast.With, ast.AsyncWith)) and any(it.context_expr is oc for it in w_.items)
                    and any(x is dump for b_ in w_.body for x in ast.walk(b_)) for w_ in iter_own_nodes(g_.node))
                r.ob(in_writer, {"in": g_.short, "cache_in opened for writing by the writer's own with-block": in_writer})
                if not in_writer:
                    r.violate(f"{g_.short}: the cache_in file is opened for writing outside the block that writes the results", g_.loc(oc),
                              "opening with 'w' truncates: a run that fails afterwards (or never reaches the writer) leaves an empty file "
                              "where the checkpoint of an earlier run was - the restart has nothing to reuse", norm_src(oc)[:100])
    r.ob(n_open >= 2, {"open() calls on the cache paths": n_open})
    # the writer is CALLED: when the executor's call returns the file is complete (never handed to a pool / a thread / a task as a value)
    from ..ctx import parents_map

    for g_ in ctx.funcs():
        if g_.module.name.endswith("_twzsa_control"):
            continue
        pm_ = None
        for x in iter_own_nodes(g_.node):
            if isinstance(x, ast.Attribute) and x.attr == f.name and isinstance(x.ctx, ast.Load):
                pm_ = pm_ or parents_map(g_.node)
                par_ = pm_.get(id(x))
                if not (isinstance(par_, ast.Call) and par_.func is x):
                    r.ob(False, {"in": g_.short, "writer handed over as a value": norm_src(par_)[:80] if par_ is not None else None})
                    r.violate(f"{g_.short}: the cache writer is handed over as a value ({norm_src(par_)[:60] if par_ is not None else norm_src(x)})", g_.loc(x),
                              "the file is written by someone else, later: the executor's call returns while the cache file does not exist "
                              "yet or is half written - a restart that follows at once fails or reads a truncated file", norm_src(x))
    # the caller passes the results of the run
    post = [g for g, c in ctx.callers_of(f.qualname)]
    r.ob(len(post) >= 1, {"written from": [g.short for g in post]})
    for g, c in ctx.callers_of(f.qualname):
        a = c.args[0] if c.args else None
        ok = a is not None and norm_src(a) == "self.results"
        r.ob(ok, {"dumped": norm_src(a) if a is not None else None})
        # the file is written whenever a cache_in path was given: no other state of the executor decides it
        from .val import reach_conditions

        from ..ctx import enclosing_stmt_chain

        st = next((x for x in reversed(enclosing_stmt_chain(g.node, c)) if isinstance(x, ast.stmt)), None)
        conds = reach_conditions(g.node, st) if st is not None else None
        if conds is None:
            continue
        other = [(t, v) for t, v in conds
                 if any(isinstance(x, ast.Attribute) and x.attr != "cache_in" and dotted(x.value) == "self" for x in ast.walk(t))]
        r.ob(not other, {"in": g.short, "cache written under": [("" if v else "not ") + norm_src(t) for t, v in conds]})
        if other:
            t, v = other[0]
            r.violate(f"{g.short}: the cache file is written only when {('' if v else 'not ') + norm_src(t)}", g.loc(c),
                      "an executor created with cache_in=<path> whose run ends without writing the file leaves a stale (or no) file: "
                      "the restart recomputes what this run had computed", norm_src(t))
    hits = _loader(ctx)
    r.require(len(hits) == 1, "reader not found")
    rf, ld = hits[0]
    var = dotted(ld.targets[0])
    reads_items = any(isinstance(n, ast.Call) and isinstance(n.func, ast.Attribute) and n.func.attr in ("items", "update") and
                      (dotted(n.func.value) == var or (n.args and dotted(n.args[0]) == var)) for n in iter_own_nodes(rf.node))
    r.ob(reads_items, {"reader consumes a mapping by id": reads_items})
    if not reads_items:
        r.violate(f"{rf.short}: the reader does not consume the cache file as an id -> value mapping", rf.loc(ld), "", None)
    return r


def cache_excl(ctx: Ctx) -> RuleResult:
    """The file written with cache_deps_of excludes the result of EVERY listed node (and only those)."""
    r = RuleResult("CACHE-EXCL")
    ws = _writer(ctx)
    r.require(len(ws) == 1, "pickle.dump site not found")
    f, dump = ws[0]
    # the filtered mapping
    flt = [n for n in iter_own_nodes(f.node) if isinstance(n, ast.DictComp) and n.generators[0].ifs]
    if not flt:
        r.ob(False)
        r.violate(f"{f.short}: the written mapping is not filtered by the excluded ids", f.loc(),
                  "the results of the cache_deps_of nodes are written to the file: restarting from it does not execute them", None)
        return r
    cond = flt[0].generators[0].ifs[0]
    okc = isinstance(cond, ast.Compare) and len(cond.ops) == 1 and isinstance(cond.ops[0], ast.NotIn) \
        and dotted(cond.left) == dotted(flt[0].generators[0].target.elts[0]) and isinstance(cond.comparators[0], ast.Name)
    r.ob(okc, {"filter": norm_src(cond)})
    if not okc:
        r.violate(f"{f.short}: the written mapping is filtered by '{norm_src(cond)}', not by 'id not in <excluded ids>'", f.loc(flt[0]),
                  "prefix / substring tests exclude nodes whose id merely begins with an excluded id", norm_src(cond))
        return r
    # the mapping that is written is the filtered one
    written = dump.args[0] if dump.args else None
    if isinstance(written, ast.Name):
        rd = ctx.reaching_defs(f, written.id, dump)
        from_filter = any(isinstance(d, (ast.Assign, ast.AnnAssign)) and d.value is flt[0] for d in rd)
        r.ob(from_filter, {"written object": written.id, "may be the filtered mapping": from_filter})
        if not from_filter:
            r.violate(f"{f.short}: the mapping that is written ('{written.id}') is never the filtered one", f.loc(dump),
                      "the exclusion is computed and then dropped: the results of the cache_deps_of nodes are written to the file, so "
                      "restarting from it does not execute them", norm_src(dump))
            return r
    elif written is not None and written is not flt[0]:
        raise Undecided(f"{f.short}: written object is not a name: {norm_src(written)}")
    acc = cond.comparators[0].id
    defs = [n for n in iter_own_nodes(f.node) if isinstance(n, (ast.Assign, ast.AnnAssign)) and dotted(n.targets[0] if isinstance(n, ast.Assign) else n.target) == acc]
    r.require(len(defs) >= 1, f"definition of {acc} not found")
    # the ids the writer excludes are the ids the user's aliases resolve to - not a set derived from the selected graph
    for g_ in ctx.funcs():
        if g_.cls is None or g_.cls.qualname != (f.cls.qualname if f.cls else None) and not (f.cls and ctx.P.is_subclass(g_.cls.qualname, f.cls.qualname)):
            continue
        for n in iter_own_nodes(g_.node):
            if isinstance(n, ast.Assign) and norm_src(n.targets[0]) == "self.cache_deps_of":
                v_ = n.value
                resolved = isinstance(v_, ast.Call) and any("cache_deps_of" in norm_src(a_) for a_ in list(v_.args) + [k.value for k in v_.keywords]) \
                    and (ctx.T.resolve_callee(g_, v_) or "") in ctx.P.funcs
                r.ob(resolved, {"in": g_.short, "cache_deps_of becomes": norm_src(v_)})
                if not resolved:
                    r.violate(f"{g_.short}: the ids kept for the cache writer are not the resolved cache_deps_of aliases ({norm_src(v_)})", g_.loc(n),
                              "with cache_deps_of=[mid, last] and last downstream of mid, a set derived from the graph (its leaves, its "
                              "roots) differs from the listed nodes: mid's result is written to the file and mid is not executed on restart",
                              norm_src(n))
                    return r
    # ... and what the writer reads from the field are ids: the field was re-assigned from the alias resolver (a tag, or a node given by
    # reference, is not the id of any result: nothing would be left out of the file)
    reads_field = any(isinstance(x, ast.Attribute) and x.attr == "cache_deps_of" and dotted(x.value) == "self"
                      for d in defs if d.value is not None for x in ast.walk(d.value))
    if reads_field:
        n_res = 0
        for g_ in ctx.funcs():
            if g_.cls is None or not (g_.cls.qualname == (f.cls.qualname if f.cls else None) or (f.cls and ctx.P.is_subclass(f.cls.qualname, g_.cls.qualname))
                                      or (f.cls and ctx.P.is_subclass(g_.cls.qualname, f.cls.qualname))):
                continue
            n_res += sum(1 for n in iter_own_nodes(g_.node) if isinstance(n, ast.Assign) and norm_src(n.targets[0]) == "self.cache_deps_of"
                         and isinstance(n.value, ast.Call) and (ctx.T.resolve_callee(g_, n.value) or "") in ctx.P.funcs)
        r.ob(n_res >= 1, {"the field the writer reads holds resolved ids": n_res >= 1})
        if n_res == 0:
            r.violate(f"{f.short}: the ids left out of the cache file are taken from the user's raw cache_deps_of aliases", f.loc(defs[0]),
                      "cache_deps_of=['<tag>'] (or any alias that is not literally an id) leaves nothing out: the node's own result is "
                      "written to the file and the restart does not execute the node it was asked to re-run", norm_src(defs[0])[:120])
            return r
    # nothing but the cache_deps_of ids is excluded: every other result of the run belongs in the file
    contrib = [(d, d.value) for d in defs if d.value is not None]
    for n in iter_own_nodes(f.node):
        if isinstance(n, ast.AugAssign) and dotted(n.target) == acc:
            contrib.append((n, n.value))
        if isinstance(n, ast.Call) and isinstance(n.func, ast.Attribute) and n.func.attr in ("update", "add", "union") and dotted(n.func.value) == acc and n.args:
            contrib.append((n, n.args[0]))
    dep_loops = [lp_ for lp_ in iter_own_nodes(f.node) if isinstance(lp_, ast.For) and "cache_deps_of" in norm_src(lp_.iter)]
    for st_, v_ in contrib:
        txt = norm_src(v_)
        widen = [c_ for c_ in ast.walk(v_) if isinstance(c_, ast.Call) and (dotted(c_.func) or "").split(".")[-1] in (
            "multiple_nodes_successors", "single_node_successors", "descendants", "ancestors", "ancestors_of_iter", "successors", "predecessors",
            "make_subgraph", "minimal_induced_subgraph") and "cache_deps_of" in norm_src(c_)]
        if widen:
            r.ob(False, {"excluded ids": txt})
            r.violate(f"{f.short}: more than the cache_deps_of nodes is left out of the file ({norm_src(widen[0].func)})", f.loc(st_),
                      "with cache_deps_of=[clean, train] and clean -> features -> train the file must hold `features` (train depends on it): a "
                      "closure of the listed nodes drops it and the restart executes it again", txt)
            return r
        empty = txt in ("set()", "frozenset()", "[]", "set([])", "{}") or (isinstance(v_, ast.Call) and dotted(v_.func) in ("set", "frozenset", "list") and not v_.args)
        in_loop = any(any(x is st_ for x in ast.walk(lp_)) for lp_ in dep_loops)
        selfref = acc in {x.id for x in ast.walk(v_) if isinstance(x, ast.Name)} and "cache_deps_of" not in txt and not in_loop
        foreign = not empty and "cache_deps_of" not in txt and not in_loop and not (selfref and isinstance(v_, (ast.BinOp, ast.Call)) and all(
            acc == x.id for x in ast.walk(v_) if isinstance(x, ast.Name)))
        if foreign:
            r.ob(False, {"excluded besides the cache_deps_of ids": txt})
            r.violate(f"{f.short}: results other than those of the cache_deps_of nodes are left out of the file ({txt})", f.loc(st_),
                      "every result of the run that is not excluded by cache_deps_of must be written: a result missing from the file "
                      "(e.g. a setup result already known to the DAG) is computed again by the execution restarted from it", txt)
            return r
    # form 1: the set of the (already resolved) ids
    direct = [d for d in defs if isinstance(d.value, ast.Call) and dotted(d.value.func) in ("set", "frozenset", "list") and d.value.args
              and norm_src(d.value.args[0]) == "self.cache_deps_of"]
    if direct and len(defs) == 1:
        r.ob(True, {"excluded ids": norm_src(direct[0].value)})
        return r
    # form 2: accumulated over a loop on cache_deps_of
    loops = [n for n in iter_own_nodes(f.node) if isinstance(n, ast.For) and "cache_deps_of" in norm_src(n.iter)]
    r.require(len(loops) == 1, "computation of the excluded ids not recognised")
    lp = loops[0]
    good = False
    bad_stmt = None
    for b in own_walk(lp):
        if isinstance(b, ast.Assign) and dotted(b.targets[0]) == acc:
            v = b.value
            uni = (isinstance(v, ast.Call) and isinstance(v.func, ast.Attribute) and v.func.attr == "union" and dotted(v.func.value) == acc) or \
                (isinstance(v, ast.BinOp) and isinstance(v.op, ast.BitOr) and acc in (dotted(v.left), dotted(v.right)))
            if uni:
                good = True
            else:
                bad_stmt = b
        if isinstance(b, ast.AugAssign) and dotted(b.target) == acc and isinstance(b.op, ast.BitOr):
            good = True
        if isinstance(b, ast.Call) and isinstance(b.func, ast.Attribute) and b.func.attr in ("update", "add") and dotted(b.func.value) == acc:
            good = True
    r.ob(good and bad_stmt is None, {"accumulates over all cache_deps_of": good and bad_stmt is None})
    if bad_stmt is not None:
        r.violate(f"{f.short}: the set of excluded ids is not accumulated by union: {norm_src(bad_stmt)[:70]}", f.loc(bad_stmt),
                  "only some (or none) of the cache_deps_of nodes are excluded: the others stay in the file and are not executed on restart",
                  norm_src(bad_stmt))
    elif not good:
        r.violate(f"{f.short}: the ids of the cache_deps_of nodes are never collected", f.loc(lp),
                  "the set of excluded ids stays empty: nothing is excluded from the file", None)
    return r


RULES = {"CACHE-ENTRY": cache_entry, "CACHE-FLOW": cache_flow, "CACHE-PRIORITY": cache_priority, "CACHE-SHAPE": cache_shape, "CACHE-EXCL": cache_excl}
