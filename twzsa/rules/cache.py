"""cache rules."""
RULES = {}
