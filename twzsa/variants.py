"""Consistently rename every local variable (not parameters, not globals/nonlocals, not names bound by import) of every function."""
import ast, sys, os, symtable

def rename_module(src: str, fname: str, suffix="_rn") -> str:
    tree = ast.parse(src)
    st = symtable.symtable(src, fname, "exec")

    def find_table(tab, name, lineno):
        for ch in tab.get_children():
            if ch.get_name() == name and ch.get_lineno() == lineno and ch.get_type() == "function":
                return ch
            r = find_table(ch, name, lineno)
            if r is not None:
                return r
        return None

    class R(ast.NodeTransformer):
        def __init__(self):
            self.stack = []

        def _func(self, node):
            tab = find_table(st, node.name, node.lineno) if not isinstance(node, ast.Lambda) else None
            ren = {}
            if tab is not None:
                # names free in nested scopes must keep in sync: rename only names that are plain locals here and not referenced by children
                child_free = set()
                def collect(t):
                    for ch in t.get_children():
                        for s in ch.get_symbols():
                            if s.is_free() or s.is_global():
                                child_free.add(s.get_name())
                        collect(ch)
                collect(tab)
                for s in tab.get_symbols():
                    n = s.get_name()
                    if s.is_local() and not s.is_parameter() and not s.is_imported() and not s.is_free() and not s.is_global() \
                            and not s.is_nonlocal() and n not in child_free and not n.startswith("__") and not s.is_namespace():
                        ren[n] = n + suffix
            self.stack.append(ren)
            node.body = [self.visit(b) for b in node.body]
            self.stack.pop()
            return node

        def visit_FunctionDef(self, node):
            # decorators / defaults / annotations belong to the enclosing scope
            node.decorator_list = [self.visit(d) for d in node.decorator_list]
            node.args = self.visit(node.args)
            return self._func(node)

        visit_AsyncFunctionDef = visit_FunctionDef

        def visit_ClassDef(self, node):
            self.stack.append({})
            self.generic_visit(node)
            self.stack.pop()
            return node

        def visit_Name(self, node):
            if self.stack and node.id in self.stack[-1]:
                node.id = self.stack[-1][node.id]
            return node

        def visit_ExceptHandler(self, node):
            if node.name and self.stack and node.name in self.stack[-1]:
                node.name = self.stack[-1][node.name]
            self.generic_visit(node)
            return node

        def visit_Lambda(self, node):
            a = node.args
            params = {x.arg for x in a.posonlyargs + a.args + a.kwonlyargs} | ({a.vararg.arg} if a.vararg else set()) | ({a.kwarg.arg} if a.kwarg else set())
            cur = self.stack[-1] if self.stack else {}
            self.stack.append({k: v for k, v in cur.items() if k not in params})
            self.generic_visit(node)
            self.stack.pop()
            return node

        def visit_ListComp(self, node):
            # comprehension variables are in their own scope in symtable (not locals of the function): names used inside that refer to
            # function locals are free there -> excluded by child_free. So nothing inside needs renaming except via Name (already excluded).
            self.generic_visit(node)
            return node

    return ast.unparse(R().visit(tree)) + "\n"

if __name__ == "__main__":
    root, out = sys.argv[1], sys.argv[2]
    for dp, dn, fn in os.walk(os.path.join(root, "tawazi")):
        for f in fn:
            if f.endswith(".py"):
                p = os.path.join(dp, f)
                rel = os.path.relpath(p, root)
                o = os.path.join(out, rel)
                os.makedirs(os.path.dirname(o), exist_ok=True)
                open(o, "w").write(rename_module(open(p).read(), p))


def swap_if_else(src: str) -> str:
    """Every `if t: A else: B` (B not an elif chain) becomes `if not t: B else: A`."""
    tree = ast.parse(src)

    class S(ast.NodeTransformer):
        def visit_If(self, node):
            self.generic_visit(node)
            if node.orelse and not (len(node.orelse) == 1 and isinstance(node.orelse[0], ast.If)):
                t = node.test
                neg = t.operand if isinstance(t, ast.UnaryOp) and isinstance(t.op, ast.Not) else ast.UnaryOp(op=ast.Not(), operand=t)
                node.test, node.body, node.orelse = neg, node.orelse, node.body
            return node

    return ast.unparse(ast.fix_missing_locations(S().visit(tree))) + "\n"


def mirror_comparisons(src: str) -> str:
    """Every binary comparison with ==, !=, <, <=, >, >= is written the other way round (a < b -> b > a)."""
    tree = ast.parse(src)
    flip = {ast.Eq: ast.Eq, ast.NotEq: ast.NotEq, ast.Lt: ast.Gt, ast.Gt: ast.Lt, ast.LtE: ast.GtE, ast.GtE: ast.LtE}

    class M(ast.NodeTransformer):
        def visit_Compare(self, node):
            self.generic_visit(node)
            if len(node.ops) == 1 and type(node.ops[0]) in flip:
                node.left, node.comparators = node.comparators[0], [node.left]
                node.ops = [flip[type(node.ops[0])]()]
            return node

    return ast.unparse(ast.fix_missing_locations(M().visit(tree))) + "\n"


def reorder_methods(src: str) -> str:
    """Methods of every class sorted by name (definitions of one name keep their order: property getter before its setter)."""
    tree = ast.parse(src)
    for c in ast.walk(tree):
        if isinstance(c, ast.ClassDef):
            idx = [i for i, b in enumerate(c.body) if isinstance(b, (ast.FunctionDef, ast.AsyncFunctionDef))]
            fns = sorted((c.body[i] for i in idx), key=lambda f: f.name)
            for i, f in zip(idx, fns):
                c.body[i] = f
    return ast.unparse(tree) + "\n"
