"""Thorough tier: sensitivity matrix (in-memory mutants that must be flagged), benign variants (must stay silent) and the
seeded patches under /verif/seeded re-applied in memory.

Nothing here changes a verdict: a mutant that is not flagged is printed as SENSITIVITY-GAP, a benign variant that raises an
alarm as BENIGN-ALARM (a weakness / false alarm of the checker, to be fixed in the checker), an operator whose anchor text
is gone as 'no longer applies'.  The variants are analysed by exactly the code path of the real check (Program overrides)."""
from __future__ import annotations

import json
import os
import re
import shutil
import subprocess
import sys
import tempfile
import time
from concurrent.futures import ProcessPoolExecutor
from typing import Dict, List, Optional, Tuple

from .report import VERIF_DIR

H = "tawazi/_dag/helpers.py"
D = "tawazi/_dag/dag.py"
G = "tawazi/_dag/digraph.py"
N = "tawazi/node/node.py"
U = "tawazi/node/uxn.py"
C = "tawazi/_dag/constructor.py"
X = "tawazi/node/extend.py"
HP = "tawazi/_helpers.py"
F = "tawazi/node/functions.py"

ALL = [f"C{i:02d}" for i in range(1, 21)]

# (id, file, old, new, properties that must flag it)
MUTANTS: List[Tuple[str, str, str, str, List[str]]] = [
    # ---- scheduler guards (C04 / C05 / C08 / C09)
    ("bound-eq-to-gt", H, "if running_threads() == max_concurrency or", "if running_threads() > max_concurrency or", ["C04"]),
    ("bound-or-to-and", H, "== max_concurrency or len(runnable_xns_ids) == 0:", "== max_concurrency and len(runnable_xns_ids) == 0:", ["C04"]),
    ("count-drops-async", H, "return len(conc_running) + len(async_running)", "return len(conc_running)", ["C04", "C05"]),
    ("main-drop-conc-wait", H, """            conc_done, conc_running, runnable_xns_ids = wait_for_finished_nodes(
                FIRST_COMPLETED, graph, conc_futures, conc_done, conc_running, runnable_xns_ids
            )

        # 3.""", "\n        # 3.", ["C04", "C09"]),
    ("swap-thread-main-arms", H, "if xn.resource == Resource.thread:", "if xn.resource == Resource.main_thread:", ["C04"]),
    ("await-async-in-place", H, """exec_future_async = to_thread_in_executor(
                xn.execute, executor, results=results, profiles=profiles
            )""", "exec_future_async = await to_thread_in_executor(xn.execute, executor, results=results, profiles=profiles)", ["C04"]),
    ("return-node-id-from-repr", N, 'return f"{func.__qualname__}{RETURN_NAME_SEP}{suffix}"', 'return f"{func}{RETURN_NAME_SEP}{suffix}"', ["C18", "C20"]),
    ("return-node-not-rebuildable", N, """class ReturnExecNode(ExecNode):
    \"\"\"ExecNode corresponding to a constant Return value of a DAG.\"\"\"

    def __init__(self, id_: Identifier, **_kwargs: Any) -> None:""", """class ReturnExecNode(ExecNode):
    \"\"\"ExecNode corresponding to a constant Return value of a DAG.\"\"\"

    def __init__(self, id_: Identifier) -> None:""", ["C20"]),
    ("subdag-stub-env-sequential", D, """                    is_sequential=False,
                    resource=consts.Resource.main_thread,""", """                    resource=consts.Resource.main_thread,""", ["C08"]),
    ("setup-default-target-all-setup-nodes", D, """            target_nodes = self.get_multiple_nodes_aliases(target_nodes)

        # 2.""", """            target_nodes = self.get_multiple_nodes_aliases(target_nodes)
        else:
            target_nodes = self.graph_ids.setup_nodes

        # 2.""", ["C11", "C12"]),
    ("executor-setup-re-resolves", D, "        self.dag._run_setup(self.dag._only_setup_nodes(deepcopy(self.graph)))",
     "        self.dag.setup(target_nodes=self.target_nodes, exclude_nodes=self.exclude_nodes, root_nodes=self.root_nodes)", ["C11", "C12"]),
    ("executor-setup-unfiltered-graph", D, "        self.dag._run_setup(self.dag._only_setup_nodes(deepcopy(self.graph)))",
     "        self.dag._run_setup(deepcopy(self.graph))", ["C11", "C15"]),
    ("pre-setup-crossed-resolution", D, "            root_nodes = self.get_multiple_nodes_aliases(root_nodes)",
     "            root_nodes = self.get_multiple_nodes_aliases(exclude_nodes)", ["C11", "C12"]),
    ("splice-kwargs-of-stale-loop-variable", D, "for name, uxn in exec_node.kwargs.items()", "for name, uxn in xn.kwargs.items()", ["C20"]),
    ("splice-kwarg-names-prefixed-again", D, "                    name: UsageExecNode(to_subdag_id(uxn.id), uxn.key)", "                    to_subdag_id(name): UsageExecNode(to_subdag_id(uxn.id), uxn.key)", ["C02", "C20"]),
    ("execute-kwarg-names-cut-at-dot", N, "            key: uxn.result(results)", "            key.split(\".\")[-1]: uxn.result(results)", ["C02", "C01"]),
    ("splice-type-of-stale-loop-variable", D, "node.exec_nodes[new_id] = type(exec_node)(**values)", "node.exec_nodes[new_id] = type(xn)(**values)", ["C20"]),
    ("compose-rewire-to-old-id", D, "xn.kwargs[xn_dep_name] = UsageExecNode(new_id, xn_dep.key)", "xn.kwargs[xn_dep_name] = UsageExecNode(old_id, xn_dep.key)", ["C19"]),
    ("cache-dump-unfiltered", D, "pickle.dump(to_cache_results, f,", "pickle.dump(results, f,", ["C18"]),
    ("async-dispatch-lazy-task-again", H, [
        ("\ndef to_thread_in_executor(", "\nasync def to_thread_in_executor("),
        ("    return loop.run_in_executor(executor, func_call)", "    return await loop.run_in_executor(executor, func_call)"),
        ("""exec_future_async = to_thread_in_executor(
                xn.execute, executor, results=results, profiles=profiles
            )""", """exec_future_async = asyncio.ensure_future(
                to_thread_in_executor(xn.execute, executor, results=results, profiles=profiles)
            )""")], None, ["C08", "C14", "C06"]),
    ("maxc-lt-1-to-lt-0", D, "if self.max_concurrency < 1:", "if self.max_concurrency < 0:", ["C04"]),
    ("seqpre-ne0-to-gt1", H, "if xn.is_sequential and running_threads() != 0:", "if xn.is_sequential and running_threads() > 1:", ["C05"]),
    ("seqpre-deleted", H, "if xn.is_sequential and running_threads() != 0:", "if False and running_threads() != 0:", ["C05"]),
    ("seqpre-continue-dropped", H, """                FIRST_COMPLETED, graph, conc_futures, conc_done, conc_running, runnable_xns_ids
            )
            continue
""", """                FIRST_COMPLETED, graph, conc_futures, conc_done, conc_running, runnable_xns_ids
            )
""", ["C05", "C06"]),
    ("seqpost-deleted", H, "        if xn.is_sequential:\n            logger.debug(\"Wait for all Futures", "        if False:\n            logger.debug(\"Wait for all Futures", ["C05"]),
    ("seqpost-only-conc", H, """            async_done, async_running, runnable_xns_ids = await wait_for_finished_nodes_async(
                ALL_COMPLETED, graph, async_futures, async_done, async_running, runnable_xns_ids
            )
""", "", ["C05"]),
    ("main-wait-all", H, """            async_done, async_running, runnable_xns_ids = await wait_for_finished_nodes_async(
                FIRST_COMPLETED, graph, async_futures, async_done, async_running, runnable_xns_ids
            )
            logger.debug(
                "Waiting for ExecNodes threaded {}""", """            async_done, async_running, runnable_xns_ids = await wait_for_finished_nodes_async(
                ALL_COMPLETED, graph, async_futures, async_done, async_running, runnable_xns_ids
            )
            logger.debug(
                "Waiting for ExecNodes threaded {}""", ["C08"]),
    ("main-guard-extra-disjunct", H, "== max_concurrency or len(runnable_xns_ids) == 0:", "== max_concurrency or len(runnable_xns_ids) <= 1:", ["C08"]),
    ("unconditional-wait", H, "        # 3. if no runnable node exist, go to step 6", """        conc_done, conc_running, runnable_xns_ids = wait_for_finished_nodes(
            FIRST_COMPLETED, graph, conc_futures, conc_done, conc_running, runnable_xns_ids
        )
        # 3. if no runnable node exist, go to step 6""", ["C08"]),
    ("helper-ignores-mode", H, "done_, running = wait(running, return_when=return_when)", "done_, running = wait(running, return_when=ALL_COMPLETED)", ["C08"]),
    ("loop-on-runnable", H, "    while len(graph):", "    while len(runnable_xns_ids):", ["C09"]),
    ("loop-break", H, """            logger.debug("No runnable Nodes available")
            continue""", """            logger.debug("No runnable Nodes available")
            break""", ["C09"]),
    ("async-helper-no-empty-return", H, """    if len(running) == 0:
        return done, running, runnable_xns_ids
    done_, running = await asyncio.wait(""", "    done_, running = await asyncio.wait(", ["C09"]),
    ("helper-drops-roots", H, """        logger.debug("Remove ExecNode {} from the graph", future_id)
        runnable_xns_ids |= graph.remove_root_node(future_id)

    return done, running, runnable_xns_ids


async def""", """        logger.debug("Remove ExecNode {} from the graph", future_id)
        graph.remove_root_node(future_id)

    return done, running, runnable_xns_ids


async def""", ["C09", "C02"]),
    ("deact-no-removal", H, """            # a node that didn't run has no result: it, and every indexed / unpacked part of it, reads as None
            runnable_xns_ids |= graph.remove_root_node(xn.id)
""", "            pass\n", ["C09", "C10"]),
    ("deact-stores-none-again", H, """            # a node that didn't run has no result: it, and every indexed / unpacked part of it, reads as None
""", "            results[xn.id] = None\n", ["C10", "C14", "C02"]),
    ("cycle-test-removed", G, """            cycle = find_cycle(graph)
            raise NetworkXUnfeasible(f"the DAG contains at least a circular dependency: {cycle}")""", "            cycle = find_cycle(graph)", ["C09"]),
    # ---- readiness / exactly once (C02 / C03)
    ("roots-degree-le-1", G, "return {node for node, degree in self.in_degree if degree == 0}", "return {node for node, degree in self.in_degree if degree <= 1}", ["C02"]),
    ("rrn-eq1-to-ge1", G, "if self.in_degree[new_root_node] == 1", "if self.in_degree[new_root_node] >= 1", ["C02"]),
    ("rrn-predecessors", G, "for new_root_node in self.successors(root_node)", "for new_root_node in self.predecessors(root_node)", ["C02"]),
    ("unite-all-successors", H, """            xn.execute(results=results, profiles=profiles)

            logger.debug("Remove ExecNode {} from the graph", xn.id)
            runnable_xns_ids |= graph.remove_root_node(xn.id)""", """            xn.execute(results=results, profiles=profiles)

            logger.debug("Remove ExecNode {} from the graph", xn.id)
            runnable_xns_ids |= set(graph.successors(xn.id))
            graph.remove_node(xn.id)""", ["C02"]),
    ("pool-removal-after-submit", H, "            conc_futures[xn.id] = exec_future_sync\n", "            conc_futures[xn.id] = exec_future_sync\n            runnable_xns_ids |= graph.remove_root_node(xn.id)\n", ["C02"]),
    ("deps-drop-active", N, """        if self.active is not None:
            deps.append(self.active)

        return deps""", "        return deps", ["C02", "C10"]),
    ("runnable-before-prune", H, """    graph.remove_nodes_from([id_ for id_ in graph if id_ in results])
""", "", ["C03", "C02"]),
    ("r-remove-deleted", H, "        runnable_xns_ids.remove(xn.id)\n", "        pass\n", ["C03"]),
    ("dispatch-twice", H, "            conc_running.add(exec_future_sync)\n", "            conc_running.add(exec_future_sync)\n            conc_running.add(executor.submit(xn.execute, results=results, profiles=profiles))\n", ["C03"]),
    ("strictdict-no-raise", HP, """        if key in self:
            raise KeyError(f"key: {key}, is already occupied by {self[key]}")
        super().__setitem__(key, value)""", "        super().__setitem__(key, value)", ["C03"]),
    ("force-set-in-execute", N, "                results[self.id] = self.exec_function(*args, **kwargs)", "                results.force_set(self.id, self.exec_function(*args, **kwargs))", ["C03"]),
    ("check-after-remove", H, """        _ = futures[future_id].result()  # raise exception by calling the future
        logger.debug("Remove ExecNode {} from the graph", future_id)
        runnable_xns_ids |= graph.remove_root_node(future_id)

    return done, running, runnable_xns_ids


async def""", """        logger.debug("Remove ExecNode {} from the graph", future_id)
        runnable_xns_ids |= graph.remove_root_node(future_id)
        _ = futures[future_id].result()  # raise exception by calling the future

    return done, running, runnable_xns_ids


async def""", ["C14", "C02"]),
    # ---- priority (C06 / C07)
    ("max-to-min", H, "highest_priority_id = max(runnable_xns_ids,", "highest_priority_id = min(runnable_xns_ids,", ["C06"]),
    ("key-own-priority", H, "key=lambda id_: graph.compound_priority[id_])", "key=lambda id_: exec_nodes[id_].priority)", ["C06"]),
    ("select-before-guard", H, "        # 4.2 if the current node must be run sequentially", """        async_done, async_running, runnable_xns_ids = await wait_for_finished_nodes_async(
            FIRST_COMPLETED, graph, async_futures, async_done, async_running, runnable_xns_ids
        )
        # 4.2 if the current node must be run sequentially""", ["C06"]),
    ("drop-table-reattach", G, "        graph.compound_priority = self.compound_priority\n\n        return graph", "        return graph", ["C06", "C07"]),
    ("gate-drop-priority-table", G, "        new_graph.compound_priority = self.compound_priority\n", "", ["C06", "C07"]),
    ("formula-child-compound", G, """            self.compound_priority[node_id] = own_priority[node_id] + sum(
                own_priority[descendant_id] for descendant_id in nx.descendants(self, node_id)
            )""", """            self.compound_priority[node_id] = own_priority[node_id] + sum(
                self.compound_priority[child_id] for child_id in self.successors(node_id)
            )""", ["C07"]),
    ("reconf-skip-rebuild", D, """        # we might have changed the priority of some nodes we need to recompute the DiGraph
        self.graph_ids = DiGraphEx.from_exec_nodes(""", """        if "nodes" not in config:
            return
        self.graph_ids = DiGraphEx.from_exec_nodes(""", ["C07"]),
    ("conf-or-default", N, 'values["priority"] = conf.get("priority", self.priority)', 'values["priority"] = conf.get("priority") or self.priority', ["C07"]),
    # ---- references (C01 / C10 / C19 / C20)
    ("deref-bare-id", H, "return bool(xn.active.result(results))", "return bool(results[xn.active.id])", ["C10", "C01"]),
    ("active-is-true", H, "return bool(xn.active.result(results))", "return xn.active.result(results) is True", ["C10"]),
    ("splice-args-drop-key", D, "UsageExecNode(to_subdag_id(uxn.id), uxn.key) for uxn in exec_node.args", "UsageExecNode(to_subdag_id(uxn.id)) for uxn in exec_node.args", ["C01", "C20"]),
    ("splice-input-no-prefix", D, "input_uxns = [UsageExecNode(to_subdag_id(uxn.id), uxn.key) for uxn in self.input_uxns]", "input_uxns = [UsageExecNode(uxn.id, uxn.key) for uxn in self.input_uxns]", ["C20"]),
    ("splice-prefix-twice", D, '                values["id_"] = new_id\n', '                values["id_"] = to_subdag_id(new_id)\n', ["C20"]),
    ("splice-no-stub-exclusion", D, """                    for id_, res in self.results.items()
                    if to_subdag_id(id_) not in registered_input_ids
""", "                    for id_, res in self.results.items()\n", ["C20"]),
    ("splice-active-only-nonsetup", D, """                if exec_node.active is not None:
                    values["active"] = UsageExecNode(
                        to_subdag_id(exec_node.active.id), exec_node.active.key
                    )

                if not exec_node.setup:
                    if is_active:""", """                if not exec_node.setup:
                    if exec_node.active is not None:
                        values["active"] = UsageExecNode(
                            to_subdag_id(exec_node.active.id), exec_node.active.key
                        )
                    if is_active:""", ["C20", "C01"]),
    ("splice-tuple-as-list", D, """                    return tuple(
                        UsageExecNode(to_subdag_id(uxn.id), uxn.key) for uxn in self.return_uxns  # type: ignore[return-value]
                    )""", """                    return [
                        UsageExecNode(to_subdag_id(uxn.id), uxn.key) for uxn in self.return_uxns  # type: ignore[return-value]
                    ]""", ["C20", "C01"]),
    ("flagpred-value-test", D, "            is_active = ARG_NAME_ACTIVATE in kwargs\n", "            is_active = bool(kwargs.get(ARG_NAME_ACTIVATE, False))\n", ["C10"]),
    ("conf-drop-active-restore", N, '        values["active"] = self.active\n', "", ["C01"]),
    ("sub-bound-to-add", X, 'setattr(UsageExecNode, "__sub__", _sub)', 'setattr(UsageExecNode, "__sub__", _add)', ["C01"]),
    ("rsub-not-reflected", X, 'setattr(UsageExecNode, "__rsub__", reflected(_sub))', 'setattr(UsageExecNode, "__rsub__", _sub)', ["C01"]),
    ("execute-reads-priority", N, "        args = [uxn.result(results) for uxn in self.args]", "        args = [uxn.result(results) for uxn in self.args] if self.priority >= 0 else []", ["C01"]),
    ("compose-kwargs-drop-key", D, "xn.kwargs[xn_dep_name] = UsageExecNode(new_id, xn_dep.key)", "xn.kwargs[xn_dep_name] = UsageExecNode(new_id)", ["C19"]),
    ("compose-no-deepcopy", D, "(in_id, _copy_xn(self.exec_nodes[in_id])) for in_id in set_xn_ids", "(in_id, self.exec_nodes[in_id]) for in_id in set_xn_ids", ["C19"]),
    ("compose-shallow-copy", D, "            xn_copy = deepcopy(xn)\n", "            xn_copy = copy(xn)\n", ["C19"]),
    ("compose-callable-cloned-again", D, """            object.__setattr__(xn_copy, "exec_function", xn.exec_function)\n""", "", ["C19"]),
    ("result-none-read-as-did-not-run", U, """            return reduce(lambda obj, key: obj.__getitem__(key), self.key, results[self.id])""", """            xn_result = results[self.id]
            if xn_result is None and self.key:
                return None
            return reduce(lambda obj, key: obj.__getitem__(key), self.key, xn_result)""", ["C02", "C10"]),
    ("result-absent-id-folded", U, """        if self.id in results:
            return reduce(lambda obj, key: obj.__getitem__(key), self.key, results[self.id])
        return None""", """        return reduce(lambda obj, key: obj.__getitem__(key), self.key, results.get(self.id))""", ["C10", "C14"]),
    ("xn-on-node-not-unwrapped", "tawazi/_decorators.py", """        if isinstance(_func, LazyExecNode):
            _func = _func.exec_function
""", "", ["C01", "C03"]),
    ("compose-drop-active-rewire", D, """                if xn.active is not None and xn.active.id == old_id:
                    object.__setattr__(xn, "active", UsageExecNode(new_id, xn.active.key))
""", "", ["C19"]),
    ("compose-missing-input-test-removed", D, """                        if pred in dag_inputs_ids:
                            _raise_missing_input(pred)
""", "", ["C19"]),
    ("alias-id-test-or", D, "if isinstance(alias, Identifier) and alias in self.exec_nodes:", "if isinstance(alias, Identifier) or alias in self.exec_nodes:", ["C12"]),
    ("compose-walk-recursive-again", D, """                        pending.append(pred)""", """                        _add_missing_deps(pred, xn_ids)""", ["C19"]),
    # ---- setup / selection / debug (C11 / C12 / C13)
    ("writeback-drop-setup-guard", D, """            if xn.setup and not xn.executed(self.results):
                logger.debug("Setting result of setup ExecNode {} to {}", node_id, result)""", """            if not xn.executed(self.results):
                logger.debug("Setting result of setup ExecNode {} to {}", node_id, result)""", ["C11", "C15"]),
    ("sched-no-results-copy", H, "    results = copy(results)\n    profiles:", "    profiles:", ["C11", "C15"]),
    ("presetup-no-filter", D, """        graph.remove_nodes_from(
            [node_id for node_id in graph if node_id not in self.graph_ids.setup_nodes]
        )
        return graph""", "        return graph", ["C11"]),
    ("setupdep-weakened", N, "accepted_case = exec_nodes[dep.id].setup or isinstance(exec_nodes[dep.id], ArgExecNode)", "accepted_case = exec_nodes[dep.id].setup or isinstance(exec_nodes[dep.id], ExecNode)", ["C11"]),
    ("select-swap-exclude-target", G, """        # then exclude nodes
        if exclude_nodes is not None:
            graph.remove_nodes_from(graph.multiple_nodes_successors(exclude_nodes))

        # lastly select additional nodes
        if target_nodes is not None:
            graph = graph.minimal_induced_subgraph(target_nodes).copy()
""", """        if target_nodes is not None:
            graph = graph.minimal_induced_subgraph(target_nodes).copy()

        if exclude_nodes is not None:
            graph.remove_nodes_from(graph.multiple_nodes_successors(exclude_nodes))
""", ["C12"]),
    ("select-closure-ancestors-for-roots", G, "return list(nx.dfs_tree(self, node_id).nodes())", "return list(nx.ancestors(self, node_id))", ["C12"]),
    ("select-drop-targets", G, "nx.induced_subgraph(self, all_ancestors | set(nodes))", "nx.induced_subgraph(self, all_ancestors)", ["C12"]),
    ("select-issubset-inverted", G, "if not set(root_nodes).issubset(set(graph.root_nodes)):", "if not set(graph.root_nodes).issubset(set(root_nodes)):", ["C12"]),
    ("alias-id-before-tag", D, """            nodes = [self.exec_nodes[xn_id] for xn_id in self.graph_ids.get_tagged_nodes(alias)]
            if nodes:
                return [node.id for node in nodes]
            #  2. or a node id!
            if isinstance(alias, Identifier) and alias in self.exec_nodes:
                node = self.get_node_by_id(alias)
                return [node.id]""", """            if isinstance(alias, Identifier) and alias in self.exec_nodes:
                node = self.get_node_by_id(alias)
                return [node.id]
            nodes = [self.exec_nodes[xn_id] for xn_id in self.graph_ids.get_tagged_nodes(alias)]
            if nodes:
                return [node.id for node in nodes]""", ["C12"]),
    ("gate-flag-inverted", G, "        if cfg.RUN_DEBUG_NODES:\n            nodes_to_include = original_graph.include_debug_nodes", "        if not cfg.RUN_DEBUG_NODES:\n            nodes_to_include = original_graph.include_debug_nodes", ["C13"]),
    ("gate-no-subtraction", G, "nodes_to_include = list(set(self.nodes) - set(self.debug_nodes))", "nodes_to_include = list(set(self.nodes))", ["C13"]),
    ("call-bypasses-gate", D, """        graph = self.graph_ids.extend_graph_with_debug_nodes(self.graph_ids, cfg)
        _, results, _ = self.run_subgraph(graph, None, *args)""", """        graph = deepcopy(self.graph_ids)
        _, results, _ = self.run_subgraph(graph, None, *args)""", ["C13"]),
    ("debugdep-removed", N, """            if not self.debug and exec_nodes[dep.id].debug:
                raise TawaziBaseException(f"Non debug node {self} depends on debug node {dep}")
""", "", ["C13"]),
    # ---- errors (C14)
    ("wrap-no-cause", N, """                    raise TawaziBaseException(
                        f"Error occurred while executing ExecNode {self.id} at {self.call_location}"
                    ) from e""", """                    raise TawaziBaseException(
                        f"Error occurred while executing ExecNode {self.id} at {self.call_location}"
                    )""", ["C14"]),
    ("wrap-no-id", N, 'f"Error occurred while executing ExecNode {self.id} at {self.call_location}"', 'f"Error occurred while executing an ExecNode at {self.call_location}"', ["C14"]),
    ("helper-no-result-check", H, "        _ = futures[future_id].result()  # raise exception by calling the future\n", "", ["C14"]),
    ("run-subgraph-swallows", D, """        exec_nodes, results, profiles = sync_execute(
            exec_nodes=self.exec_nodes,
            results=results,
            max_concurrency=self.max_concurrency,
            graph=subgraph,
        )
""", """        try:
            exec_nodes, results, profiles = sync_execute(
                exec_nodes=self.exec_nodes,
                results=results,
                max_concurrency=self.max_concurrency,
                graph=subgraph,
            )
        except Exception:
            logger.debug("execution failed")
            exec_nodes, profiles = self.exec_nodes, StrictDict()
""", ["C14"]),
    # ---- state / threads / async (C15 / C16 / C17)
    ("args-no-copy", H, "    results = copy(results)\n    # 2. parse the input arguments", "    # 2. parse the input arguments", ["C15"]),
    ("executor-own-graph", D, "            deepcopy(self.graph), results, *args\n        )\n\n        return self._post_call()\n\n\nclass", "            self.graph, results, *args\n        )\n\n        return self._post_call()\n\n\nclass", ["C15"]),
    ("executed-check-removed", D, """        if self.executed:
            raise TawaziUsageError("DAGExecution object has already been executed.")
""", "", ["C15"]),
    ("locked-as-predicate", N, "    return exec_nodes_lock_owner == get_ident()", "    return exec_nodes_lock.locked()", ["C16"]),
    ("reset-outside-finally", C, """    finally:
        # 5. Clean global variable
        # node.* are global variables, their value is used in the DAG.
        node.exec_nodes = StrictDict()
        node.results = StrictDict()
        node.DAG_PREFIX = []""", """    finally:
        # 5. Clean global variable
        # node.* are global variables, their value is used in the DAG.
        node.exec_nodes = StrictDict()
        node.results = StrictDict()""", ["C16"]),
    ("global-in-scheduler", H, [("K = TypeVar(\"K\")", "_PROFILES: \"StrictDict[Identifier, Profile]\" = StrictDict()\nK = TypeVar(\"K\")"),
                                ("    profiles: StrictDict[Identifier, Profile] = StrictDict()\n\n    # TODO: remove copy",
                                 "    profiles: StrictDict[Identifier, Profile] = _PROFILES\n\n    # TODO: remove copy")], None, ["C16"]),
    ("sync-drops-param", H, "exec_nodes=exec_nodes, results=results, max_concurrency=max_concurrency, graph=graph\n        )\n    )", "exec_nodes=exec_nodes, results=results, max_concurrency=1, graph=graph\n        )\n    )", ["C17"]),
    ("async-call-no-gate", D, """        graph = self.graph_ids.extend_graph_with_debug_nodes(self.graph_ids, cfg)
        _, results, _ = await self.run_subgraph(graph, None, *args)""", """        graph = deepcopy(self.graph_ids)
        _, results, _ = await self.run_subgraph(graph, None, *args)""", ["C17", "C13"]),
    ("sleep-in-coroutine", H, "        # 4.1 choose the most prioritized node to run", "        time.sleep(0)\n        # 4.1 choose the most prioritized node to run", ["C17"]),
    # ---- cache (C18)
    ("cache-drop-merge", D, """            for node_id, result in cached_results.items():
                results.force_set(node_id, result)
""", "", ["C18"]),
    ("cache-merge-not-passed", D, "        results = self._pre_call()\n\n        # 2. Execute the scheduler\n        self.xn_dict, self.results, self.profiles = self.dag.run_subgraph(\n            deepcopy(self.graph), results, *args", "        self._pre_call()\n\n        # 2. Execute the scheduler\n        self.xn_dict, self.results, self.profiles = self.dag.run_subgraph(\n            deepcopy(self.graph), self.results, *args", ["C18"]),
    ("cache-no-exclusion", D, "id_: res for id_, res in results.items() if id_ not in non_cacheable_ids", "id_: res for id_, res in results.items()", ["C18"]),
]

REPLACE_ALL = {"helper-no-result-check"}

# benign variants: behaviour-preserving edits that must not raise an alarm in any property
RENAMES = [
    ("run_subgraph", "execute_subgraph"), ("get_multiple_nodes_aliases", "resolve_aliases"), ("alias_to_ids", "resolve_alias"),
    ("make_subgraph", "select_subgraph"), ("async_execute", "schedule"), ("sync_execute", "run_schedule"),
    ("wait_for_finished_nodes", "collect_finished"), ("assign_compound_priority", "compute_priorities"),
    ("remove_root_node", "pop_root"), ("executed", "was_executed"), ("_pre_setup", "_setup_graph"),
    ("include_debug_nodes", "pull_debug_nodes"), ("extend_graph_with_debug_nodes", "debug_gate"), ("make_active", "build_activation"),
    ("from_exec_nodes", "build_from_nodes"), ("add_exec_node", "register_node"), ("minimal_induced_subgraph", "induced_closure"),
    ("compound_priority", "total_priority"), ("setup_nodes", "setup_ids"), ("debug_nodes", "debug_ids"), ("graph_ids", "id_graph"),
    ("input_uxns", "input_refs"), ("DAG_PREFIX", "PREFIX_STACK"), ("copy_non_setup_xns", "copy_nodes"),
    ("_only_setup_nodes", "_keep_setup"), ("_run_setup", "_exec_setup"), ("to_thread_in_executor", "submit_async"),
    ("_xn_active_in_call", "is_active_now"), ("_conf_to_values", "reconfigured_values"), ("extend_results_with_args", "bind_arguments"),
]

# a benign variant that is not indifferent to every property: it is not generated for the listed ones (where the same edit is a mutant)
BENIGN_EXCEPT: Dict[str, Tuple[str, ...]] = {
    # with one thread node and one async-thread node in flight the loop is blocked while the async-thread node runs (seed C17w, same edit
    # under the SEQ-PRE licence); what starts, idling and the observation of failures do not depend on the order
    "swap-main-waits": ("C17",),
}

BENIGN: List[Tuple[str, str, List[Tuple[str, str]]]] = [
    ("rename-setup-helpers", D, [("_run_setup", "_execute_setup_graph"), ("_only_setup_nodes", "_drop_ordinary_nodes")]),
    ("return-node-id-local", N, [('    suffix = make_suffix(name_or_order)\n    return f"{func.__qualname__}{RETURN_NAME_SEP}{suffix}"',
                                   '    suffix = make_suffix(name_or_order)\n    base: str = func.__qualname__\n    return f"{base}{RETURN_NAME_SEP}{suffix}"')]),
    ("async-wrapper-future-local", H, [("    return loop.run_in_executor(executor, func_call)", "    fut = loop.run_in_executor(executor, func_call)\n    return fut")]),
    ("not-runnable", H, [("or len(runnable_xns_ids) == 0:", "or not runnable_xns_ids:"), ("        if len(runnable_xns_ids) == 0:", "        if not runnable_xns_ids:")]),
    ("bound-ge", H, [("if running_threads() == max_concurrency or", "if running_threads() >= max_concurrency or")]),
    ("post-drain-first-completed", H, [("                ALL_COMPLETED, graph, conc_futures", "                FIRST_COMPLETED, graph, conc_futures"),
                                       ("                ALL_COMPLETED, graph, async_futures", "                FIRST_COMPLETED, graph, async_futures")]),
    ("rename-locals", H, [("runnable_xns_ids", "ready_ids"), ("conc_running", "thread_inflight"), ("async_running", "coro_inflight"),
                          ("highest_priority_id", "best"), ("running_threads", "n_inflight")]),
    ("swap-main-waits", H, [("""            async_done, async_running, runnable_xns_ids = await wait_for_finished_nodes_async(
                FIRST_COMPLETED, graph, async_futures, async_done, async_running, runnable_xns_ids
            )
            logger.debug(
                "Waiting for ExecNodes threaded {} to finish. Finished running {}",
                conc_running,
                conc_done,
            )
            conc_done, conc_running, runnable_xns_ids = wait_for_finished_nodes(
                FIRST_COMPLETED, graph, conc_futures, conc_done, conc_running, runnable_xns_ids
            )
""", """            conc_done, conc_running, runnable_xns_ids = wait_for_finished_nodes(
                FIRST_COMPLETED, graph, conc_futures, conc_done, conc_running, runnable_xns_ids
            )
            async_done, async_running, runnable_xns_ids = await wait_for_finished_nodes_async(
                FIRST_COMPLETED, graph, async_futures, async_done, async_running, runnable_xns_ids
            )
""")]),
    ("extra-logging", H, [("        xn = exec_nodes[highest_priority_id]\n", "        xn = exec_nodes[highest_priority_id]\n        logger.debug(\"picked {} among {}\", xn.id, len(runnable_xns_ids))\n")]),
    ("resource-compare-reversed", H, [("if xn.resource == Resource.thread:", "if Resource.thread == xn.resource:"), ("elif xn.resource == Resource.async_thread:", "elif xn.resource is Resource.async_thread:")]),
    ("active-ifexp", H, [("return bool(xn.active.result(results))", "return True if xn.active.result(results) else False")]),
    ("select-sorted-last", H, [("highest_priority_id = max(runnable_xns_ids, key=lambda id_: graph.compound_priority[id_])",
                                "highest_priority_id = sorted(runnable_xns_ids, key=lambda id_: graph.compound_priority[id_])[-1]")]),
    ("subset-operator", G, [("if not set(root_nodes).issubset(set(graph.root_nodes)):", "if not set(root_nodes) <= set(graph.root_nodes):")]),
    ("results-copy-ctor", H, [("    results = copy(results)\n    profiles:", "    results = StrictDict(results)\n    profiles:")]),
    ("deps-list-copy", N, [("        deps = self.args.copy()", "        deps = list(self.args)")]),
    ("loop-test-truthiness", H, [("    while len(graph):", "    while len(graph) > 0:")]),
    ("helper-not-running", H, [("    if len(running) == 0:\n        return done, running, runnable_xns_ids\n    done_, running = wait(", "    if not running:\n        return done, running, runnable_xns_ids\n    done_, running = wait(")]),
    ("pool-positional", H, [("ThreadPoolExecutor(max_workers=max_concurrency)", "ThreadPoolExecutor(max_concurrency)")]),
    ("remove-selected-by-key", H, [("        runnable_xns_ids.remove(xn.id)\n", "        runnable_xns_ids.discard(highest_priority_id)\n")]),
    ("prune-list-nodes", H, [("graph.remove_nodes_from([id_ for id_ in graph if id_ in results])", "graph.remove_nodes_from([id_ for id_ in graph.nodes if id_ in results])")]),
    ("compose-rename-loopvar", D, [("                for i, xn_dep in enumerate(xn.args):", "                for i, dep_ref in enumerate(xn.args):"),
                                   ("                    if xn_dep.id == old_id:\n                        xn.args[i] = UsageExecNode(new_id, xn_dep.key)", "                    if dep_ref.id == old_id:\n                        xn.args[i] = UsageExecNode(new_id, dep_ref.key)")]),
    ("key-copy", D, [("UsageExecNode(to_subdag_id(uxn.id), uxn.key) for uxn in exec_node.args", "UsageExecNode(to_subdag_id(uxn.id), list(uxn.key)) for uxn in exec_node.args")]),
    ("exclude-truthiness", G, [("        if exclude_nodes is not None:\n            graph.remove_nodes_from", "        if exclude_nodes:\n            graph.remove_nodes_from")]),
    ("maxc-le-0", D, [("if self.max_concurrency < 1:", "if self.max_concurrency <= 0:")]),
    ("owner-current-thread-ident", N, [("    return exec_nodes_lock_owner == get_ident()", "    return exec_nodes_lock_owner == get_ident() and exec_nodes_lock.locked()")]),
    ("deps-one-expression", N, [("""        deps = self.args.copy()
        # 2. and from kwargs
        deps.extend(self.kwargs.values())
        # 3. and from active
        if self.active is not None:
            deps.append(self.active)

        return deps""", """        return [*self.args, *self.kwargs.values(), *([self.active] if self.active is not None else [])]""")]),
    ("accessor-not-in", U, [("""        if self.id in results:
            return reduce(lambda obj, key: obj.__getitem__(key), self.key, results[self.id])
        return None""", """        if self.id not in results:
            return None
        xn_result = results[self.id]
        return reduce(lambda obj, key: obj.__getitem__(key), self.key, xn_result)""")]),
    ("gate-arms-swapped", G, [("""        if cfg.RUN_DEBUG_NODES:
            nodes_to_include = original_graph.include_debug_nodes(self.leaf_nodes) + list(
                self.nodes
            )
        else:
            nodes_to_include = list(set(self.nodes) - set(self.debug_nodes))""", """        if not cfg.RUN_DEBUG_NODES:
            nodes_to_include = list(set(self.nodes) - set(self.debug_nodes))
        else:
            nodes_to_include = original_graph.include_debug_nodes(self.leaf_nodes) + list(
                self.nodes
            )""")]),
    ("active-restructured", H, [("""    if xn.active is None:
        return True
    return bool(xn.active.result(results))""", """    if xn.active is not None:
        return bool(xn.active.result(results))
    return True""")]),
    ("writeback-rename", D, [("""            xn = self.exec_nodes[node_id]
            if xn.setup and not xn.executed(self.results):
                logger.debug("Setting result of setup ExecNode {} to {}", node_id, result)""", """            the_node = self.exec_nodes[node_id]
            if the_node.setup and not the_node.executed(self.results):
                logger.debug("Setting result of setup ExecNode {} to {}", node_id, result)""")]),
    ("subgraph-intermediate-var", G, [("            graph = graph.subgraph(graph.multiple_nodes_successors(root_nodes)).copy()",
                                       "            kept = graph.multiple_nodes_successors(root_nodes)\n            graph = graph.subgraph(kept).copy()")]),
    ("precall-strictdict-copy", D, [("            results = copy(results)\n            for node_id, result in cached_results.items():", "            results = StrictDict(results)\n            for node_id, result in cached_results.items():")]),
    ("execute-args-loop", N, [("        args = [uxn.result(results) for uxn in self.args]", "        args = list(uxn.result(results) for uxn in self.args)")]),
    ("helper-rename-params", H, [("running: Set[\"Future[Any]\"],", "pending: Set[\"Future[Any]\"],"), ("    if len(running) == 0:\n        return done, running, runnable_xns_ids\n    done_, running = wait(running, return_when=return_when)",
                                  "    if len(pending) == 0:\n        return done, pending, runnable_xns_ids\n    done_, pending = wait(pending, return_when=return_when)"),
                                 ("    return done, running, runnable_xns_ids\n\n\nasync def wait_for_finished_nodes_async", "    return done, pending, runnable_xns_ids\n\n\nasync def wait_for_finished_nodes_async")]),
    ("async-kwargs-reordered", D, [("""        exec_nodes, results, profiles = await async_execute(
            exec_nodes=self.exec_nodes,
            results=results,
            max_concurrency=self.max_concurrency,
            graph=subgraph,
        )""", """        exec_nodes, results, profiles = await async_execute(
            graph=subgraph,
            results=results,
            exec_nodes=self.exec_nodes,
            max_concurrency=self.max_concurrency,
        )""")]),
    ("execute-logs-priority", N, [('        logger.debug("Start executing {} with task {}", self.id, self.exec_function)',
                                   '        logger.debug("Start executing {} (priority {}) with task {}", self.id, self.priority, self.exec_function)')]),
    ("root-alias-truthiness", D, [("        if root_nodes is not None:\n            root_nodes = self.get_multiple_nodes_aliases(root_nodes)\n\n        graph = self.graph_ids.make_subgraph(",
                                   "        if root_nodes:\n            root_nodes = self.get_multiple_nodes_aliases(root_nodes)\n\n        graph = self.graph_ids.make_subgraph(")]),
    ("exclude-loop-over-closure", G, [("            graph.remove_nodes_from(graph.multiple_nodes_successors(exclude_nodes))",
                                       "            for excluded_id in graph.multiple_nodes_successors(exclude_nodes):\n                graph.remove_node(excluded_id)")]),
    ("writeback-nested-ifs", D, [("""            if xn.setup and not xn.executed(self.results):
                logger.debug("Setting result of setup ExecNode {} to {}", node_id, result)
                logger.debug("Future executions will use this result.")
                self.results[node_id] = result""", """            if xn.setup:
                if node_id not in self.results:
                    self.results[node_id] = result""")]),
    ("conf-if-in", N, [('values["priority"] = conf.get("priority", self.priority)', 'values["priority"] = conf["priority"] if "priority" in conf else self.priority')]),
]


def _read(root: str, rel: str) -> str:
    with open(os.path.join(root, rel), encoding="utf-8") as fh:
        return fh.read()


def _run_variant(args) -> dict:
    kind, vid, pid, root, overrides = args
    from . import engine

    if overrides is None:
        return {"id": vid, "kind": kind, "property": pid, "applies": False}
    t0 = time.time()
    try:
        st, summ = engine.run_property(pid, "quick", root, overrides, quiet=True, write=False)
    except Exception as e:  # pragma: no cover
        return {"id": vid, "kind": kind, "property": pid, "applies": True, "exit": 2, "rules": [f"internal:{type(e).__name__}"], "s": 0}
    rules = sorted({k.split(" @ ")[0] for k in summ.get("new", [])})
    return {"id": vid, "kind": kind, "property": pid, "applies": True, "exit": st, "rules": rules,
            "undecided": sorted(summ.get("undecided", {})) if st == 2 else [], "s": round(time.time() - t0, 2)}


def _seed_overrides(root: str, patch: str) -> Optional[Dict[str, str]]:
    """Apply a seeded patch to a scratch copy of the package (outside /repo and /verif) and return the changed files."""
    tmp = tempfile.mkdtemp(prefix="twzsa_seed_")
    try:
        shutil.copytree(os.path.join(root, "tawazi"), os.path.join(tmp, "tawazi"), ignore=shutil.ignore_patterns("__pycache__"))
        p = subprocess.run(["patch", "-p1", "-s", "-f", "--no-backup-if-mismatch", "-i", patch], cwd=tmp, capture_output=True, text=True)
        if p.returncode != 0:
            return None
        out = {}
        for dp, dn, fn in os.walk(os.path.join(tmp, "tawazi")):
            for f in fn:
                if f.endswith(".py"):
                    full = os.path.join(dp, f)
                    rel = os.path.relpath(full, tmp)
                    with open(full, encoding="utf-8") as fh:
                        src = fh.read()
                    if src != _read(root, rel):
                        out[rel] = src
        return out or None
    finally:
        shutil.rmtree(tmp, ignore_errors=True)


# the edits of BENIGN_EXCEPT are mutants of the excepted properties
MUTANTS.extend((vid + "@mutant", rel, edits, None, list(BENIGN_EXCEPT[vid])) for vid, rel, edits in BENIGN if vid in BENIGN_EXCEPT)


def build_jobs(root: str, pids: List[str]) -> List[tuple]:
    jobs = []
    src_cache: Dict[str, str] = {}

    def src(rel):
        if rel not in src_cache:
            src_cache[rel] = _read(root, rel)
        return src_cache[rel]

    for vid, rel, old, new, props in MUTANTS:
        s = src(rel)
        edits = old if isinstance(old, list) else [(old, new)]
        if all(o in s for o, _ in edits):
            for o, n_ in edits:
                s = s.replace(o, n_) if vid in REPLACE_ALL else s.replace(o, n_, 1)
            ov = {rel: s}
        else:
            ov = None
        for pid in props:
            if pid in pids:
                jobs.append(("mutant", vid, pid, root, ov))
    for vid, rel, edits in BENIGN:
        s = src(rel)
        ok = all(o in s for o, _ in edits)
        if ok:
            for o, n in edits:
                s = s.replace(o, n)
        for pid in pids:
            if pid in BENIGN_EXCEPT.get(vid, ()):
                continue
            jobs.append(("benign", vid, pid, root, {rel: s} if ok else None))
    # whole-package benign variant: every file re-emitted by ast.unparse (comments gone, layout and line numbers changed)
    import ast as _ast

    rt = {}
    for dp, dn, fn in os.walk(os.path.join(root, "tawazi")):
        for f_ in fn:
            if f_.endswith(".py"):
                rel = os.path.relpath(os.path.join(dp, f_), root)
                try:
                    rt[rel] = _ast.unparse(_ast.parse(_read(root, rel))) + "\n"
                except SyntaxError:
                    rt = None
                    break
        if rt is None:
            break
    for pid in pids:
        jobs.append(("benign", "reformat-all-files(ast.unparse)", pid, root, rt))
    # whole-package benign variant: every local variable of every function consistently renamed (the suite passes on it)
    from .variants import rename_module

    rn = {}
    for dp, dn, fn in os.walk(os.path.join(root, "tawazi")):
        for f_ in fn:
            if f_.endswith(".py"):
                rel = os.path.relpath(os.path.join(dp, f_), root)
                try:
                    rn[rel] = rename_module(_read(root, rel), rel)
                except SyntaxError:
                    rn = None
                    break
        if rn is None:
            break
    for pid in pids:
        jobs.append(("benign", "rename-all-locals(symtable)", pid, root, rn))
    # two more whole-package rewrites the suite passes on: every if/else with its arms swapped under the negated test, and every
    # binary comparison written the other way round (not in node/extend.py: there the operand order IS the behaviour - it decides
    # whose __lt__/__eq__ runs - and REF-OPS rightly reports it)
    from .variants import mirror_comparisons, reorder_methods, swap_if_else

    for label, fn_, skip in (("swap-every-if-else", swap_if_else, ()), ("mirror-every-comparison", mirror_comparisons, (X,)),
                             ("methods-sorted-by-name", reorder_methods, ())):
        ov: Optional[Dict[str, str]] = {}
        for dp, dn, fn in os.walk(os.path.join(root, "tawazi")):
            for f_ in fn:
                if f_.endswith(".py"):
                    rel = os.path.relpath(os.path.join(dp, f_), root)
                    if rel in skip:
                        continue
                    try:
                        ov[rel] = fn_(_read(root, rel))
                    except SyntaxError:
                        ov = None
                        break
            if ov is None:
                break
        for pid in pids:
            jobs.append(("benign", label, pid, root, ov))
    # internal helpers and attributes renamed throughout the package (twzsa/roles.py finds them by structure)
    import re as _re

    for old_, new_ in RENAMES:
        ov2: Dict[str, str] = {}
        for dp, dn, fn in os.walk(os.path.join(root, "tawazi")):
            for f_ in fn:
                if f_.endswith(".py"):
                    rel = os.path.relpath(os.path.join(dp, f_), root)
                    src_ = _read(root, rel)
                    new_src = _re.sub(r"\b%s\b" % _re.escape(old_), new_, src_)
                    if new_src != src_:
                        ov2[rel] = new_src
        for pid in pids:
            jobs.append(("benign", f"rename({old_}->{new_})", pid, root, ov2 or None))
    # behaviour-preserving refactorings written by independent sub-agents (benign/<id>/patch.diff): every property must stay silent
    bdir = os.path.join(VERIF_DIR, "benign")
    if os.path.isdir(bdir):
        for bid in sorted(os.listdir(bdir)):
            pf = os.path.join(bdir, bid, "patch.diff")
            if not os.path.exists(pf):
                continue
            ovb = _seed_overrides(root, pf)
            for pid in pids:
                jobs.append(("benign", f"refactoring {bid}", pid, root, ovb))
    seeded = os.path.join(VERIF_DIR, "seeded")
    if os.path.isdir(seeded):
        for sid in sorted(os.listdir(seeded)):
            pf = os.path.join(seeded, sid, "patch.diff")
            mf = os.path.join(seeded, sid, "meta.json")
            if not (os.path.exists(pf) and os.path.exists(mf)):
                continue
            meta = json.load(open(mf))
            if meta.get("obsolete_since") or meta.get("open_miss"):
                continue  # open_miss: recorded as not (yet) flagged - DESIGN 10.6m lists it
            expect = meta.get("caught_by") or [meta["property"]]
            ov = None
            todo = [p for p in expect if p in pids]
            if todo:
                ov = _seed_overrides(root, pf)
            for pid in todo:
                jobs.append(("seeded", sid, pid, root, ov))
    return jobs


def thorough_extras(pid: str, root: str) -> dict:
    jobs = build_jobs(root, [pid])
    workers = min(16, max(1, len(jobs)))
    with ProcessPoolExecutor(max_workers=workers) as ex:
        res = list(ex.map(_run_variant, jobs, chunksize=2))
    return summarise(res)


def summarise(res: List[dict]) -> dict:
    lines = []
    mut = [r for r in res if r["kind"] in ("mutant", "seeded")]
    ben = [r for r in res if r["kind"] == "benign"]
    flagged = [r for r in mut if r.get("applies") and r["exit"] == 1]
    gaps = [r for r in mut if r.get("applies") and r["exit"] != 1]
    na = [r for r in res if not r.get("applies")]
    silent = [r for r in ben if r.get("applies") and r["exit"] == 0]
    alarms = [r for r in ben if r.get("applies") and r["exit"] == 1]
    unmod = [r for r in ben if r.get("applies") and r["exit"] == 2]
    lines.append(f"  sensitivity: {len(flagged)}/{len([r for r in mut if r.get('applies')])} variants that break the property are flagged; "
                 f"benign variants silent: {len(silent)}/{len([r for r in ben if r.get('applies')])}"
                 + (f"; {len(na)} operator(s) no longer apply" if na else ""))
    for k_, i_ in sorted({(r["kind"], r["id"]) for r in na}):
        lines.append(f"  (no longer applies to this tree: {k_} '{i_}')")
    for r in gaps:
        lines.append(f"  SENSITIVITY-GAP: {r['kind']} '{r['id']}' is not flagged by {r['property']} (exit {r['exit']}"
                     + (f", undecided: {r['undecided']}" if r.get("undecided") else "") + ")")
    for r in alarms:
        lines.append(f"  BENIGN-ALARM: benign variant '{r['id']}' raises {r['rules']} in {r['property']} - a false alarm of the checker")
    for r in unmod:
        lines.append(f"  (benign variant '{r['id']}' is an idiom {r['property']} does not model: analysis-error, not an alarm: {r.get('undecided')})")
    return {
        "lines": lines,
        "variants_run": len([r for r in res if r.get("applies")]),
        "mutants_flagged": [{"id": r["id"], "kind": r["kind"], "rules": r["rules"]} for r in flagged],
        "sensitivity_gaps": [{"id": r["id"], "kind": r["kind"], "exit": r["exit"]} for r in gaps],
        "benign_silent": [r["id"] for r in silent],
        "benign_alarms": [{"id": r["id"], "rules": r["rules"]} for r in alarms],
        "benign_unmodelled": [{"id": r["id"], "undecided": r.get("undecided")} for r in unmod],
        "operators_not_applicable": sorted({r["id"] for r in na}),
    }


def main(jobs_n: int, only: Optional[str]) -> int:
    from .ctx import REPO

    pids = [only] if only else ALL
    jobs = build_jobs(REPO, pids)
    t0 = time.time()
    with ProcessPoolExecutor(max_workers=jobs_n) as ex:
        res = list(ex.map(_run_variant, jobs, chunksize=4))
    s = summarise(res)
    for l in s["lines"]:
        print(l)
    # on the unchanged tree every rule must DECIDE: an auxiliary rule that is undecided does not change an exit status and
    # would otherwise degrade unnoticed (e.g. after a normalisation of the loader changed the spelling a rule expects)
    from .ctx import Ctx
    from .props import PROPS
    from .report import UNDECIDED
    from .engine import run_rules_only

    und = run_rules_only(Ctx(REPO), sorted({r_ for p_ in PROPS.values() for r_ in p_["core"] + p_["aux"]}))
    for name, reason in und:
        print(f"  UNDECIDED-ON-CLEAN-TREE: rule {name}: {reason}")
    print(f"selftest: {s['variants_run']} variant analyses in {time.time() - t0:.1f}s")
    return 0 if not s["sensitivity_gaps"] and not s["benign_alarms"] and not und else 3
