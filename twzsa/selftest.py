"""Thorough-tier extras (sensitivity matrix, benign variants) - filled in later."""


def thorough_extras(pid, root):
    return {}


def main(jobs, only):
    return 0
