"""Loader / resolver: parse every module of the package under analysis and index it.

Nothing of the analysed package is imported or executed.  A ``Program`` can be built from the working
tree as it is, or with *overrides* (relative path -> source text) so that in-memory variants of the tree
(sensitivity mutants, benign variants) are analysed by exactly the same code.
"""
from __future__ import annotations

import ast
import hashlib
import os
from dataclasses import dataclass, field
from typing import Dict, Iterator, List, Optional, Set


@dataclass
class FuncInfo:
    qualname: str
    module: "ModInfo"
    node: ast.AST
    cls: Optional["ClassInfo"] = None
    parent: Optional["FuncInfo"] = None  # enclosing function for nested defs

    @property
    def name(self) -> str:
        return self.node.name  # type: ignore[attr-defined]

    @property
    def is_async(self) -> bool:
        return isinstance(self.node, ast.AsyncFunctionDef)

    @property
    def short(self) -> str:
        q = self.qualname
        return q.split(".", 1)[1] if "." in q else q

    def decorators(self) -> List[str]:
        return [ast.unparse(d) for d in self.node.decorator_list]  # type: ignore[attr-defined]

    def loc(self, node: Optional[ast.AST] = None) -> str:
        n = node if node is not None else self.node
        return f"{self.module.rel}:{int(getattr(n, 'lineno', 0) or 0)}"


@dataclass
class ClassInfo:
    qualname: str
    module: "ModInfo"
    node: ast.ClassDef
    bases: List[str] = field(default_factory=list)
    methods: Dict[str, FuncInfo] = field(default_factory=dict)
    fields: Dict[str, ast.AST] = field(default_factory=dict)  # name -> annotation
    field_defaults: Dict[str, Optional[ast.AST]] = field(default_factory=dict)

    @property
    def name(self) -> str:
        return self.node.name

    def is_dataclass(self) -> bool:
        return any("dataclass" in ast.unparse(d) for d in self.node.decorator_list)


@dataclass
class ModInfo:
    name: str
    path: str
    rel: str
    source: str
    tree: ast.Module
    is_pkg: bool = False
    imports: Dict[str, str] = field(default_factory=dict)
    classes: Dict[str, ClassInfo] = field(default_factory=dict)
    funcs: Dict[str, FuncInfo] = field(default_factory=dict)
    globals_: Dict[str, ast.AST] = field(default_factory=dict)


_FLIP = {ast.Eq: ast.Eq, ast.NotEq: ast.NotEq, ast.Lt: ast.Gt, ast.Gt: ast.Lt, ast.LtE: ast.GtE, ast.GtE: ast.LtE}


def _rank(e: ast.AST) -> int:
    if isinstance(e, ast.Constant):
        return 3
    if isinstance(e, ast.Name):
        return 2
    return 1


class _Canon(ast.NodeTransformer):
    """Single binary comparisons are read with the more complex operand on the left and a constant on the right
    (`0 == d` as `d == 0`, `old == ref.id` as `ref.id == old`, `1 < len(x)` as `len(x) > 1`): the rules then meet one spelling."""

    def visit_Compare(self, node: ast.Compare) -> ast.AST:
        self.generic_visit(node)
        if len(node.ops) == 1 and type(node.ops[0]) in _FLIP and _rank(node.left) > _rank(node.comparators[0]):
            left, right = node.comparators[0], node.left
            node.left, node.comparators = left, [right]
            node.ops = [_FLIP[type(node.ops[0])]()]
        return node


def _neg(e: ast.AST) -> ast.AST:
    """Negation pushed inwards (negation normal form for and / or / not / comparisons)."""
    if isinstance(e, ast.UnaryOp) and isinstance(e.op, ast.Not):
        return e.operand
    if isinstance(e, ast.BoolOp):
        op = ast.Or() if isinstance(e.op, ast.And) else ast.And()
        return ast.copy_location(ast.BoolOp(op=op, values=[_neg(v) for v in e.values]), e)
    if isinstance(e, ast.Compare) and len(e.ops) == 1:
        inv = {ast.Is: ast.IsNot, ast.IsNot: ast.Is, ast.Eq: ast.NotEq, ast.NotEq: ast.Eq, ast.In: ast.NotIn, ast.NotIn: ast.In,
               ast.Lt: ast.GtE, ast.GtE: ast.Lt, ast.Gt: ast.LtE, ast.LtE: ast.Gt}
        return ast.copy_location(ast.Compare(left=e.left, ops=[inv[type(e.ops[0])]()], comparators=e.comparators), e)
    return ast.copy_location(ast.UnaryOp(op=ast.Not(), operand=e), e)


class _Canon2(ast.NodeTransformer):
    """Statement-level spellings read in one form:
    `not (a and b)` as `not a or not b`, `not (x is None)` as `x is not None` (negation normal form);
    `v = A if C else B` as `if C: v = A / else: v = B`;
    `d.update(k=v, ...)` / `d.update({"k": v, ...})` on a name, as a statement, as `d["k"] = v; ...`."""

    def visit_UnaryOp(self, node: ast.UnaryOp):
        self.generic_visit(node)
        if isinstance(node.op, ast.Not) and (isinstance(node.operand, (ast.BoolOp,)) or (isinstance(node.operand, ast.UnaryOp) and isinstance(node.operand.op, ast.Not))
                                             or (isinstance(node.operand, ast.Compare) and len(node.operand.ops) == 1
                                                 and isinstance(node.operand.ops[0], (ast.Is, ast.IsNot, ast.Eq, ast.NotEq, ast.In, ast.NotIn)))):
            return _neg(node.operand)
        return node

    def _stmts(self, stmts):
        out = []
        for st in stmts:
            st = self.visit(st)
            if isinstance(st, list):
                out += st
            elif st is not None:
                out.append(st)
        return out

    def generic_visit(self, node):
        for fld in ("body", "orelse", "finalbody"):
            v = getattr(node, fld, None)
            if isinstance(v, list) and v and isinstance(v[0], ast.stmt):
                setattr(node, fld, self._stmts(v))
        if isinstance(node, ast.Try):
            for h in node.handlers:
                h.body = self._stmts(h.body)
        for field, old in ast.iter_fields(node):
            if field in ("body", "orelse", "finalbody") and isinstance(old, list) and old and isinstance(old[0], ast.stmt):
                continue
            if isinstance(old, list):
                new = []
                for v in old:
                    if isinstance(v, ast.AST):
                        v = self.visit(v)
                        if v is None:
                            continue
                        if isinstance(v, list):
                            new += v
                            continue
                    new.append(v)
                old[:] = new
            elif isinstance(old, ast.AST):
                nv = self.visit(old)
                if nv is None:
                    delattr(node, field)
                else:
                    setattr(node, field, nv)
        return node

    def visit_Assign(self, node: ast.Assign):
        # `v = {**f(..), "k1": e1, "k2": e2}` (a fresh mapping first, then constant keys) is `v = f(..); v["k1"] = e1; v["k2"] = e2`
        if len(node.targets) == 1 and isinstance(node.targets[0], ast.Name) and isinstance(node.value, ast.Dict) and len(node.value.keys) >= 2 \
                and node.value.keys[0] is None and isinstance(node.value.values[0], ast.Call) \
                and all(isinstance(k, ast.Constant) and isinstance(k.value, str) for k in node.value.keys[1:]):
            nm = node.targets[0].id
            if not any(isinstance(x, ast.Name) and x.id == nm for v_ in node.value.values for x in ast.walk(v_)):
                out = [ast.copy_location(ast.Assign(targets=[ast.Name(id=nm, ctx=ast.Store())], value=node.value.values[0]), node)]
                for k, v_ in zip(node.value.keys[1:], node.value.values[1:]):
                    tgt = ast.Subscript(value=ast.Name(id=nm, ctx=ast.Load()), slice=k, ctx=ast.Store())
                    out.append(ast.copy_location(ast.Assign(targets=[tgt], value=v_), node))
                res = []
                for i_, st in enumerate(out):
                    ast.fix_missing_locations(st)
                    # the stores come one after the other: positions say so (rules compare positions for "after")
                    for x in ast.walk(st):
                        if hasattr(x, "lineno"):
                            x.lineno = node.lineno + i_ * 1e-3  # type: ignore[attr-defined]
                            x.end_lineno = x.lineno  # type: ignore[attr-defined]
                    r_ = self.visit_Assign(st)
                    res += r_ if isinstance(r_, list) else [r_]
                return res
        # `m["a"], m["b"] = x, y` (constant-key items of one mapping name on the left, plain names / constants on the right that are not
        # that mapping) is `m["a"] = x; m["b"] = y`
        if len(node.targets) == 1 and isinstance(node.targets[0], (ast.Tuple, ast.List)) and isinstance(node.value, (ast.Tuple, ast.List)) \
                and len(node.targets[0].elts) == len(node.value.elts) and node.targets[0].elts \
                and all(isinstance(t, ast.Subscript) and isinstance(t.value, ast.Name) and isinstance(t.slice, ast.Constant) for t in node.targets[0].elts) \
                and len({t.value.id for t in node.targets[0].elts}) == 1 \
                and all(isinstance(e, (ast.Name, ast.Constant)) for e in node.value.elts) \
                and not any(isinstance(e, ast.Name) and e.id == node.targets[0].elts[0].value.id for e in node.value.elts):
            out = []
            for i_, (t, e) in enumerate(zip(node.targets[0].elts, node.value.elts)):
                st = ast.copy_location(ast.Assign(targets=[t], value=e), node)
                ast.fix_missing_locations(st)
                for x in ast.walk(st):
                    if hasattr(x, "lineno"):
                        x.lineno = node.lineno + i_ * 1e-3  # type: ignore[attr-defined]
                        x.end_lineno = x.lineno  # type: ignore[attr-defined]
                out.append(st)
            return out
        # `a, b = X, Y` with names on the left that do not occur on the right is `a = X; b = Y`
        if len(node.targets) == 1 and isinstance(node.targets[0], (ast.Tuple, ast.List)) and isinstance(node.value, (ast.Tuple, ast.List)) \
                and len(node.targets[0].elts) == len(node.value.elts) and all(isinstance(t, ast.Name) for t in node.targets[0].elts) \
                and not any(isinstance(e, ast.Starred) for e in node.value.elts):
            tn = {t.id for t in node.targets[0].elts}
            if not any(isinstance(x, ast.Name) and x.id in tn for e in node.value.elts for x in ast.walk(e)) \
                    and not any(isinstance(x, (ast.Call, ast.Await, ast.Yield, ast.YieldFrom, ast.NamedExpr)) for e in node.value.elts for x in ast.walk(e)):
                out = []
                for t, e in zip(node.targets[0].elts, node.value.elts):
                    st = ast.copy_location(ast.Assign(targets=[t], value=e), node)
                    ast.fix_missing_locations(st)
                    r_ = self.visit_Assign(st)
                    out += r_ if isinstance(r_, list) else [r_]
                return out
        # `a, b, c = (F(x) for x in (p, q, r))` (also a list comprehension / list display) is `a = F(p); b = F(q); c = F(r)`
        if len(node.targets) == 1 and isinstance(node.targets[0], (ast.Tuple, ast.List)) and isinstance(node.value, (ast.GeneratorExp, ast.ListComp)) \
                and len(node.value.generators) == 1 and not node.value.generators[0].ifs and not node.value.generators[0].is_async \
                and isinstance(node.value.generators[0].target, ast.Name) and isinstance(node.value.generators[0].iter, (ast.Tuple, ast.List)) \
                and len(node.value.generators[0].iter.elts) == len(node.targets[0].elts) \
                and not any(isinstance(e, ast.Starred) for e in node.targets[0].elts + node.value.generators[0].iter.elts):
            import copy as _c

            var = node.value.generators[0].target.id

            class _Sub(ast.NodeTransformer):
                def __init__(self, repl):
                    self.repl = repl

                def visit_Name(self, n):
                    return _c.deepcopy(self.repl) if n.id == var and isinstance(n.ctx, ast.Load) else n

            out = []
            for tgt, src in zip(node.targets[0].elts, node.value.generators[0].iter.elts):
                val = _Sub(src).visit(_c.deepcopy(node.value.elt))
                st = ast.copy_location(ast.Assign(targets=[_c.deepcopy(tgt)], value=val), node)
                ast.fix_missing_locations(st)
                r_ = self.visit_Assign(st)
                out += r_ if isinstance(r_, list) else [r_]
            return out
        self.generic_visit(node)
        if isinstance(node.value, ast.IfExp) and len(node.targets) == 1 and isinstance(node.targets[0], (ast.Name, ast.Attribute)):
            import copy as _c

            a = ast.copy_location(ast.Assign(targets=[_c.deepcopy(node.targets[0])], value=node.value.body), node)
            b = ast.copy_location(ast.Assign(targets=[_c.deepcopy(node.targets[0])], value=node.value.orelse), node)
            return ast.copy_location(ast.If(test=node.value.test, body=[a], orelse=[b]), node)
        return node

    def visit_With(self, node: ast.With):
        # `with A, B: BODY` is `with A: with B: BODY`
        if len(node.items) > 1:
            inner = ast.copy_location(ast.With(items=node.items[1:], body=node.body), node)
            node = ast.copy_location(ast.With(items=node.items[:1], body=[inner]), node)
            ast.fix_missing_locations(node)
        # `with ExitStack() as s: s.callback(f, *a); BODY` is `try: BODY finally: f(*a)` (callbacks run last-in first-out)
        self.generic_visit(node)
        # `with suppress(E1, E2): BODY` is `try: BODY except (E1, E2): pass`
        if len(node.items) == 1 and node.items[0].optional_vars is None and isinstance(node.items[0].context_expr, ast.Call) \
                and ast.unparse(node.items[0].context_expr.func).split(".")[-1] == "suppress" and node.items[0].context_expr.args \
                and not node.items[0].context_expr.keywords:
            excs = node.items[0].context_expr.args
            typ = excs[0] if len(excs) == 1 else ast.Tuple(elts=list(excs), ctx=ast.Load())
            h = ast.ExceptHandler(type=typ, name=None, body=[ast.Pass()])
            t = ast.Try(body=node.body, handlers=[h], orelse=[], finalbody=[])
            for x in (h, t):
                ast.copy_location(x, node)
            ast.fix_missing_locations(t)
            return t
        if len(node.items) == 1 and isinstance(node.items[0].context_expr, ast.Call) and not node.items[0].context_expr.args \
                and (ast.unparse(node.items[0].context_expr.func)).split(".")[-1] == "ExitStack" and isinstance(node.items[0].optional_vars, ast.Name):
            nm = node.items[0].optional_vars.id
            cbs = []
            rest = list(node.body)
            while rest and isinstance(rest[0], ast.Expr) and isinstance(rest[0].value, ast.Call) and isinstance(rest[0].value.func, ast.Attribute) \
                    and rest[0].value.func.attr == "callback" and isinstance(rest[0].value.func.value, ast.Name) and rest[0].value.func.value.id == nm \
                    and rest[0].value.args:
                c = rest[0].value
                cbs.append(ast.copy_location(ast.Expr(value=ast.Call(func=c.args[0], args=list(c.args[1:]), keywords=list(c.keywords))), rest[0]))
                rest = rest[1:]
            used = any(isinstance(x, ast.Name) and x.id == nm for st in rest for x in ast.walk(st))
            if cbs and rest and not used:
                t = ast.Try(body=rest, handlers=[], orelse=[], finalbody=list(reversed(cbs)))
                return ast.copy_location(t, node)
        return node

    def visit_Expr(self, node: ast.Expr):
        self.generic_visit(node)
        v = node.value
        if isinstance(v, ast.Call) and isinstance(v.func, ast.Attribute) and v.func.attr == "update" and isinstance(v.func.value, ast.Name):
            pairs = None
            if not v.args and v.keywords and all(k.arg is not None for k in v.keywords):
                pairs = [(ast.Constant(value=k.arg), k.value) for k in v.keywords]
            elif len(v.args) == 1 and not v.keywords and isinstance(v.args[0], ast.Dict) and v.args[0].keys \
                    and all(isinstance(k, ast.Constant) for k in v.args[0].keys):
                pairs = list(zip(v.args[0].keys, v.args[0].values))
            if pairs:
                out = []
                for k, val in pairs:
                    tgt = ast.Subscript(value=ast.Name(id=v.func.value.id, ctx=ast.Load()), slice=k, ctx=ast.Store())
                    out.append(ast.copy_location(ast.Assign(targets=[tgt], value=val), node))
                return out
        return node


_PURE_CALLS = ("isinstance", "callable", "len", "bool", "any", "all", "hasattr", "issubclass")


def _boolish(e: ast.AST) -> bool:
    if isinstance(e, (ast.Compare, ast.BoolOp)):
        return all(_boolish(x) or isinstance(x, (ast.Name, ast.Attribute, ast.Constant, ast.Subscript, ast.Call, ast.Set, ast.Tuple, ast.List))
                   for x in ast.iter_child_nodes(e) if isinstance(x, ast.expr))
    if isinstance(e, ast.UnaryOp) and isinstance(e.op, ast.Not):
        return True
    if isinstance(e, ast.Call) and isinstance(e.func, ast.Name) and e.func.id in _PURE_CALLS:
        return True
    return False


def _explaining_variables(fn: ast.AST) -> None:
    """`ok = <condition>` assigned once and used only inside the tests of if / while / conditional expressions is read as the
    condition itself (an 'explaining variable' is the commonest cosmetic change to a guard)."""
    import copy as _c

    own: List[ast.AST] = []
    stack = list(fn.body)  # type: ignore[attr-defined]
    while stack:
        n = stack.pop()
        own.append(n)
        for c in ast.iter_child_nodes(n):
            if not isinstance(c, (ast.FunctionDef, ast.AsyncFunctionDef, ast.ClassDef, ast.Lambda)):
                stack.append(c)
    nested_names = {x.id for d in ast.walk(fn) if isinstance(d, (ast.FunctionDef, ast.AsyncFunctionDef, ast.Lambda)) and d is not fn
                    for x in ast.walk(d) if isinstance(x, ast.Name)}
    stores: Dict[str, List[ast.AST]] = {}
    for n in own:
        if isinstance(n, ast.Name) and isinstance(n.ctx, ast.Store):
            stores.setdefault(n.id, []).append(n)
    params = {a.arg for a in fn.args.posonlyargs + fn.args.args + fn.args.kwonlyargs}  # type: ignore[attr-defined]
    test_nodes = set()
    for n in own:
        if isinstance(n, (ast.If, ast.While, ast.IfExp)):
            st2 = [n.test]
            while st2:
                t = st2.pop()
                test_nodes.add(id(t))
                if isinstance(t, ast.BoolOp):
                    st2 += t.values
                elif isinstance(t, ast.UnaryOp) and isinstance(t.op, ast.Not):
                    st2.append(t.operand)
    cands: Dict[str, ast.Assign] = {}
    for n in own:
        if isinstance(n, ast.Assign) and len(n.targets) == 1 and isinstance(n.targets[0], ast.Name) and _boolish(n.value):
            nm = n.targets[0].id
            if len(stores.get(nm, [])) == 1 and nm not in params and nm not in nested_names:
                cands[nm] = n
    for nm, asg in list(cands.items()):
        loads = [n for n in own if isinstance(n, ast.Name) and n.id == nm and isinstance(n.ctx, ast.Load)]
        if not loads or any(id(n) not in test_nodes or getattr(n, "lineno", 0) < getattr(asg, "lineno", 0) for n in loads):
            del cands[nm]
    if not cands:
        return

    class _S(ast.NodeTransformer):
        def visit_Name(self, node: ast.Name):
            if isinstance(node.ctx, ast.Load) and node.id in cands:
                return ast.copy_location(self.visit(_c.deepcopy(cands[node.id].value)), node)
            return node

        def visit_FunctionDef(self, node):
            return node if node is not fn else self.generic_visit(node)

        visit_AsyncFunctionDef = visit_FunctionDef

    drop = {id(a) for a in cands.values()}

    def prune(stmts):
        out = []
        for st in stmts:
            if id(st) in drop:
                continue
            for fld in ("body", "orelse", "finalbody"):
                v = getattr(st, fld, None)
                if isinstance(v, list) and v and isinstance(v[0], ast.stmt) and not isinstance(st, (ast.FunctionDef, ast.AsyncFunctionDef, ast.ClassDef)):
                    setattr(st, fld, prune(v) or ([ast.Pass()] if fld == "body" else []))
            if isinstance(st, ast.Try):
                for h in st.handlers:
                    h.body = prune(h.body) or [ast.Pass()]
            out.append(st)
        return out
    _S().generic_visit(fn)
    fn.body = prune(fn.body) or [ast.Pass()]  # type: ignore[attr-defined]


def _plain_chain(e: ast.AST) -> bool:
    while isinstance(e, ast.Attribute):
        e = e.value
    return isinstance(e, ast.Name)


def _aliases(fn: ast.AST) -> None:
    """`x = self.a.b` (a name or an attribute chain), assigned once, never re-bound, with a source nobody assigns in the function,
    is read as the chain itself (a local introduced only to shorten an expression)."""
    import copy as _c

    own: List[ast.AST] = []
    stack = list(fn.body)  # type: ignore[attr-defined]
    while stack:
        n = stack.pop()
        own.append(n)
        for c in ast.iter_child_nodes(n):
            if not isinstance(c, (ast.FunctionDef, ast.AsyncFunctionDef, ast.ClassDef, ast.Lambda)):
                stack.append(c)
    nested_names = {x.id for d in ast.walk(fn) if isinstance(d, (ast.FunctionDef, ast.AsyncFunctionDef, ast.Lambda)) and d is not fn
                    for x in ast.walk(d) if isinstance(x, ast.Name)}
    params = {a.arg for a in fn.args.posonlyargs + fn.args.args + fn.args.kwonlyargs}  # type: ignore[attr-defined]
    store_count: Dict[str, int] = {}
    stored_chains = set()
    for n in own:
        if isinstance(n, ast.Name) and isinstance(n.ctx, (ast.Store, ast.Del)):
            store_count[n.id] = store_count.get(n.id, 0) + 1
        if isinstance(n, ast.Attribute) and isinstance(n.ctx, (ast.Store, ast.Del)):
            stored_chains.add(ast.unparse(n))
        if isinstance(n, (ast.Global, ast.Nonlocal)):
            for nm in n.names:
                store_count[nm] = store_count.get(nm, 0) + 2
    cands: Dict[str, ast.Assign] = {}
    for st in own:
        if isinstance(st, ast.Assign) and len(st.targets) == 1 and isinstance(st.targets[0], ast.Name) and isinstance(st.value, ast.Attribute) \
                and _plain_chain(st.value):
            nm = st.targets[0].id
            root = st.value
            while isinstance(root, ast.Attribute):
                root = root.value
            src = ast.unparse(st.value)
            if store_count.get(nm, 0) == 1 and nm not in params and nm not in nested_names and store_count.get(root.id, 0) == 0 \
                    and not any(src == c or src.startswith(c + ".") or c.startswith(src + ".") for c in stored_chains) \
                    and root.id in params | {"self", "cls"}:
                cands[nm] = st
            elif store_count.get(nm, 0) == 1 and nm not in params and nm not in nested_names and store_count.get(root.id, 0) == 1 \
                    and root.id not in params and root.id not in nested_names \
                    and not any(src == c or src.startswith(c + ".") or c.startswith(src + ".") for c in stored_chains):
                # the source is a local bound once, EARLIER IN THE SAME BLOCK (`xn = table[k]; xn_id = xn.id` at the top of a loop body):
                # in every iteration the alias is taken after the source was bound, and every use comes after the alias
                for blk in own:
                    for fld in ("body", "orelse", "finalbody"):
                        lst = getattr(blk, fld, None)
                        if isinstance(lst, list) and st in lst:
                            before = lst[:lst.index(st)]
                            if any(isinstance(b, (ast.Assign, ast.AnnAssign)) and any(isinstance(t, ast.Name) and t.id == root.id
                                                                                      for t in (b.targets if isinstance(b, ast.Assign) else [b.target]))
                                   for b in before):
                                cands[nm] = st
                if st in getattr(fn, "body", []):
                    before = fn.body[:fn.body.index(st)]  # type: ignore[attr-defined]
                    if any(isinstance(b, (ast.Assign, ast.AnnAssign)) and any(isinstance(t, ast.Name) and t.id == root.id
                                                                              for t in (b.targets if isinstance(b, ast.Assign) else [b.target])) for b in before):
                        cands[nm] = st
    for nm, asg in list(cands.items()):
        loads = [n for n in own if isinstance(n, ast.Name) and n.id == nm and isinstance(n.ctx, ast.Load)]
        if not loads or any(getattr(n, "lineno", 0) < getattr(asg, "lineno", 0) for n in loads):
            del cands[nm]
    if not cands:
        return

    class _S(ast.NodeTransformer):
        def visit_Name(self, node: ast.Name):
            if isinstance(node.ctx, ast.Load) and node.id in cands:
                return ast.copy_location(_c.deepcopy(cands[node.id].value), node)
            return node

        def visit_FunctionDef(self, node):
            return node if node is not fn else self.generic_visit(node)

        visit_AsyncFunctionDef = visit_FunctionDef

    drop = {id(a) for a in cands.values()}

    def prune(stmts):
        out = []
        for st in stmts:
            if id(st) in drop:
                continue
            for fld in ("body", "orelse", "finalbody"):
                v = getattr(st, fld, None)
                if isinstance(v, list) and v and isinstance(v[0], ast.stmt) and not isinstance(st, (ast.FunctionDef, ast.AsyncFunctionDef, ast.ClassDef)):
                    setattr(st, fld, prune(v) or ([ast.Pass()] if fld == "body" else []))
            if isinstance(st, ast.Try):
                for h in st.handlers:
                    h.body = prune(h.body) or [ast.Pass()]
            out.append(st)
        return out
    _S().generic_visit(fn)
    fn.body = prune(fn.body) or [ast.Pass()]  # type: ignore[attr-defined]


def _set_typed_names(fn: ast.AST) -> Set[str]:
    """Parameters and locals of a function that are sets by annotation (`Set[..]`, `set`, `MutableSet[..]`) or by every assignment
    (`set()`, a set display, a set comprehension)."""
    def is_set_ann(a: Optional[ast.AST]) -> bool:
        if a is None:
            return False
        if isinstance(a, ast.Constant) and isinstance(a.value, str):
            try:
                a = ast.parse(a.value, mode="eval").body
            except SyntaxError:
                return False
        base = a.value if isinstance(a, ast.Subscript) else a
        name = base.attr if isinstance(base, ast.Attribute) else (base.id if isinstance(base, ast.Name) else None)
        return name in ("Set", "set", "MutableSet")

    out: Set[str] = set()
    args = fn.args
    for a in list(args.posonlyargs) + list(args.args) + list(args.kwonlyargs):
        if is_set_ann(a.annotation):
            out.add(a.arg)
    assigned: Dict[str, List[bool]] = {}
    for n in ast.walk(fn):
        if isinstance(n, ast.AnnAssign) and isinstance(n.target, ast.Name) and is_set_ann(n.annotation):
            out.add(n.target.id)
        elif isinstance(n, ast.Assign) and len(n.targets) == 1 and isinstance(n.targets[0], ast.Name):
            v = n.value
            is_set = isinstance(v, (ast.Set, ast.SetComp)) or (isinstance(v, ast.Call) and isinstance(v.func, ast.Name) and v.func.id == "set")
            assigned.setdefault(n.targets[0].id, []).append(is_set)
    out |= {k for k, v in assigned.items() if v and all(v)}
    return out


def _set_updates(fn: ast.AST) -> None:
    """`S.update(E)` as a statement, S a set of this function (see above), is read as `S |= E`."""
    names = _set_typed_names(fn)
    if not names:
        return

    def go(stmts: List[ast.stmt]) -> None:
        for i, st in enumerate(stmts):
            if isinstance(st, (ast.FunctionDef, ast.AsyncFunctionDef, ast.ClassDef)):
                continue
            if isinstance(st, ast.Expr) and isinstance(st.value, ast.Call) and isinstance(st.value.func, ast.Attribute) \
                    and st.value.func.attr == "update" and isinstance(st.value.func.value, ast.Name) and st.value.func.value.id in names \
                    and len(st.value.args) == 1 and not st.value.keywords and not isinstance(st.value.args[0], ast.Starred):
                stmts[i] = ast.copy_location(ast.AugAssign(target=ast.Name(id=st.value.func.value.id, ctx=ast.Store()), op=ast.BitOr(),
                                                           value=st.value.args[0]), st)
                continue
            for fld in ("body", "orelse", "finalbody"):
                v = getattr(st, fld, None)
                if isinstance(v, list) and v and isinstance(v[0], ast.stmt):
                    go(v)
            if isinstance(st, ast.Try):
                for h in st.handlers:
                    go(h.body)

    go(fn.body)


def _module_passes(tree: ast.Module) -> None:
    """Spellings that need module-level facts (in place):
    * `getattr(x, "name")` (two arguments, constant name) is `x.name`;
    * `for v in NAMES: BODY` with NAMES a literal tuple / list of constants - written in place or bound once at module level - and at
      most 8 elements is BODY once per element, v replaced by the constant (a table of field names driving a loop of assignments);
    * `C(a, b, ..)._asdict()` with C a NamedTuple class of this module is the dict display `{"f1": a, "f2": b, ..}`;
    * `v = partial(F, **kw)` bound once in a function: `v(..)` is `F(.., **kw)`, and `v` handed as the callable of
      submit / to_thread / to_thread_in_executor is `F` followed by those keywords."""
    import copy as _c

    consts: Dict[str, List[ast.AST]] = {}
    rows: Dict[str, List[List[ast.AST]]] = {}
    ntuples: Dict[str, List[str]] = {}
    mod_funcs = {st.name for st in tree.body if isinstance(st, (ast.FunctionDef, ast.AsyncFunctionDef))}
    for st in tree.body:
        if isinstance(st, ast.Assign) and len(st.targets) == 1 and isinstance(st.targets[0], ast.Name) and isinstance(st.value, (ast.Tuple, ast.List)) \
                and st.value.elts and all(isinstance(e, ast.Constant) for e in st.value.elts):
            consts[st.targets[0].id] = list(st.value.elts)
        # a module-level table of this module's own functions (tried / applied in order by a loop)
        tgt_ = st.targets[0] if isinstance(st, ast.Assign) and len(st.targets) == 1 else (st.target if isinstance(st, ast.AnnAssign) else None)
        val_ = getattr(st, "value", None)
        if isinstance(tgt_, ast.Name) and isinstance(val_, (ast.Tuple, ast.List)) and val_.elts \
                and all(isinstance(e, ast.Name) and e.id in mod_funcs for e in val_.elts):
            consts[tgt_.id] = list(val_.elts)
        # a module-level table of rows (type, function-or-lambda, ...) driving an unpacking loop
        if isinstance(tgt_, ast.Name) and isinstance(val_, (ast.Tuple, ast.List)) and val_.elts \
                and all(isinstance(e, ast.Tuple) and e.elts and all(isinstance(x, (ast.Name, ast.Constant, ast.Lambda, ast.Attribute)) for x in e.elts)
                        for e in val_.elts) and len({len(e.elts) for e in val_.elts}) == 1:
            rows[tgt_.id] = [list(e.elts) for e in val_.elts]
        if isinstance(st, ast.ClassDef) and any(ast.unparse(b).split(".")[-1] == "NamedTuple" for b in st.bases):
            ntuples[st.name] = [b.target.id for b in st.body if isinstance(b, ast.AnnAssign) and isinstance(b.target, ast.Name)]
    def _rows_literal(v: ast.AST) -> bool:
        return isinstance(v, (ast.Tuple, ast.List)) and bool(v.elts) and all(
            isinstance(e, ast.Tuple) and e.elts and all(isinstance(x, (ast.Name, ast.Constant, ast.Lambda, ast.Attribute)) for x in e.elts)
            for e in v.elts) and len({len(e.elts) for e in v.elts}) == 1

    stores: Dict[str, int] = {}
    for n in ast.walk(tree):
        if isinstance(n, ast.Name) and isinstance(n.ctx, ast.Store):
            stores[n.id] = stores.get(n.id, 0) + 1
    local_rows: Dict[str, List[List[ast.AST]]] = {}
    for n in ast.walk(tree):
        if isinstance(n, ast.Assign) and n not in tree.body and len(n.targets) == 1 and isinstance(n.targets[0], ast.Name) \
                and stores.get(n.targets[0].id) == 1 and _rows_literal(n.value):
            local_rows[n.targets[0].id] = [list(e.elts) for e in n.value.elts]
    mod_classes = {c.name: {m.name for m in c.body if isinstance(m, (ast.FunctionDef, ast.AsyncFunctionDef))
                            and not any(ast.unparse(d).split(".")[-1] in ("staticmethod", "classmethod", "property") for d in m.decorator_list)}
                   for c in tree.body if isinstance(c, ast.ClassDef)}
    rebound = {t.id for n in ast.walk(tree) if isinstance(n, (ast.Assign, ast.AugAssign, ast.AnnAssign)) and n not in tree.body
               for t in ast.walk(n.targets[0] if isinstance(n, ast.Assign) else n.target) if isinstance(t, ast.Name) and isinstance(t.ctx, ast.Store)}

    def _const_elts(it: ast.AST):
        """The constant elements of a literal tuple / list, or of a module-level name bound once to one."""
        if isinstance(it, (ast.Tuple, ast.List)) and it.elts and all(isinstance(e, ast.Constant) for e in it.elts):
            return list(it.elts)
        if isinstance(it, ast.Name) and it.id in consts and it.id not in rebound and all(isinstance(e, ast.Constant) for e in consts[it.id]):
            return list(consts[it.id])
        return None

    def _subst_name(e: ast.AST, name: str, value: ast.AST) -> ast.AST:
        class _S1(ast.NodeTransformer):
            def visit_Name(self, n):
                return _c.deepcopy(value) if n.id == name and isinstance(n.ctx, ast.Load) else n
        return _S1().visit(_c.deepcopy(e))

    class _G(ast.NodeTransformer):
        def visit_DictComp(self, node: ast.DictComp):
            self.generic_visit(node)
            # {k: E(k) for k in ("a", "b")}  is  {"a": E("a"), "b": E("b")}
            if len(node.generators) == 1 and not node.generators[0].ifs and isinstance(node.generators[0].target, ast.Name):
                elts = _const_elts(node.generators[0].iter)
                if elts is not None and len(elts) <= 8:
                    v = node.generators[0].target.id
                    return ast.copy_location(ast.Dict(keys=[self.visit(_subst_name(node.key, v, e)) for e in elts],
                                                      values=[self.visit(_subst_name(node.value, v, e)) for e in elts]), node)
            return node

        def visit_Expr(self, node: ast.Expr):
            self.generic_visit(node)
            # setattr(x, "name", v) as a statement  is  x.name = v
            c = node.value
            root_ = c.args[0] if isinstance(c, ast.Call) and c.args else None
            while isinstance(root_, ast.Attribute):
                root_ = root_.value
            # (an object, not a class: `setattr(SomeClass, "__add__", f)` at module level installs operators and is read as it stands)
            if isinstance(c, ast.Call) and isinstance(c.func, ast.Name) and c.func.id == "setattr" and len(c.args) == 3 and not c.keywords \
                    and isinstance(root_, ast.Name) and not root_.id[:1].isupper() \
                    and isinstance(c.args[1], ast.Constant) and isinstance(c.args[1].value, str) and c.args[1].value.isidentifier():
                return ast.copy_location(ast.Assign(targets=[ast.Attribute(value=c.args[0], attr=c.args[1].value, ctx=ast.Store())], value=c.args[2]), node)
            return node

        def visit_Call(self, node: ast.Call):
            self.generic_visit(node)
            # any(E(k) for k in ("a", "b"))  is  E("a") or E("b");  all(..) is the conjunction
            if isinstance(node.func, ast.Name) and node.func.id in ("any", "all") and len(node.args) == 1 and not node.keywords \
                    and isinstance(node.args[0], (ast.GeneratorExp, ast.ListComp)) and len(node.args[0].generators) == 1 \
                    and not node.args[0].generators[0].ifs and isinstance(node.args[0].generators[0].target, ast.Name):
                g_ = node.args[0]
                elts = _const_elts(g_.generators[0].iter)
                if elts is not None and 2 <= len(elts) <= 8:
                    vals = [self.visit(_subst_name(g_.elt, g_.generators[0].target.id, e)) for e in elts]
                    return ast.copy_location(ast.BoolOp(op=ast.Or() if node.func.id == "any" else ast.And(), values=vals), node)
            # C.method(obj, a, ..) with C a class of this module and method a plain method of it  is  obj.method(a, ..)
            if isinstance(node.func, ast.Attribute) and isinstance(node.func.value, ast.Name) and node.func.value.id in mod_classes \
                    and node.func.attr in mod_classes[node.func.value.id] and node.args and isinstance(node.args[0], (ast.Name, ast.Attribute)) \
                    and not isinstance(node.args[0], ast.Starred):
                node.func = ast.copy_location(ast.Attribute(value=node.args[0], attr=node.func.attr, ctx=ast.Load()), node.func)
                node.args = node.args[1:]
            # f(**{"a": x, "b": y})  is read as  f(a=x, b=y)
            if any(k.arg is None and isinstance(k.value, ast.Dict) for k in node.keywords):
                kws = []
                for k in node.keywords:
                    d = k.value
                    if k.arg is None and isinstance(d, ast.Dict) and d.keys and all(
                            isinstance(x, ast.Constant) and isinstance(x.value, str) and x.value.isidentifier() for x in d.keys):
                        kws += [ast.keyword(arg=x.value, value=v) for x, v in zip(d.keys, d.values)]
                    else:
                        kws.append(k)
                node.keywords = kws
            if isinstance(node.func, ast.Name) and node.func.id == "getattr" and len(node.args) == 2 and not node.keywords \
                    and isinstance(node.args[1], ast.Constant) and isinstance(node.args[1].value, str) and node.args[1].value.isidentifier():
                return ast.copy_location(ast.Attribute(value=node.args[0], attr=node.args[1].value, ctx=ast.Load()), node)
            if isinstance(node.func, ast.Attribute) and node.func.attr == "_asdict" and not node.args and isinstance(node.func.value, ast.Call) \
                    and isinstance(node.func.value.func, ast.Name) and node.func.value.func.id in ntuples:
                c = node.func.value
                flds = ntuples[c.func.id]
                if not any(isinstance(a, ast.Starred) for a in c.args) and len(c.args) + len(c.keywords) == len(flds) and all(k.arg in flds for k in c.keywords):
                    vals = dict(zip(flds, c.args))
                    vals.update({k.arg: k.value for k in c.keywords})
                    if set(vals) == set(flds):
                        return ast.copy_location(ast.Dict(keys=[ast.Constant(value=f_) for f_ in flds], values=[vals[f_] for f_ in flds]), node)
            return node

    # `v = C(..)` bound once and used once, as `v._asdict()`: the use is read as `C(..)._asdict()`
    if ntuples:
        for fn in [n for n in ast.walk(tree) if isinstance(n, (ast.FunctionDef, ast.AsyncFunctionDef))]:
            asg = {}
            for n in ast.walk(fn):
                if isinstance(n, ast.Assign) and len(n.targets) == 1 and isinstance(n.targets[0], ast.Name):
                    asg.setdefault(n.targets[0].id, []).append(n)
            for name, ds in asg.items():
                if len(ds) != 1 or not (isinstance(ds[0].value, ast.Call) and isinstance(ds[0].value.func, ast.Name) and ds[0].value.func.id in ntuples):
                    continue
                loads = [x for x in ast.walk(fn) if isinstance(x, ast.Name) and x.id == name and isinstance(x.ctx, ast.Load)]
                uses = [x for x in ast.walk(fn) if isinstance(x, ast.Call) and isinstance(x.func, ast.Attribute) and x.func.attr == "_asdict"
                        and isinstance(x.func.value, ast.Name) and x.func.value.id == name]
                if len(loads) == 1 and len(uses) == 1:
                    uses[0].func.value = _c.deepcopy(ds[0].value)
    tree_new = _G().visit(tree)
    assert tree_new is tree

    class _Beta(ast.NodeTransformer):
        """(lambda a, b: E)(x, y)  is  E[a := x, b := y]  when the arguments are plain (a name, an attribute chain, a constant)."""
        def visit_Call(self, node: ast.Call):
            self.generic_visit(node)
            lam = node.func
            if isinstance(lam, ast.Lambda) and not node.keywords and not lam.args.vararg and not lam.args.kwarg and not lam.args.kwonlyargs \
                    and not lam.args.defaults and len(lam.args.args) + len(lam.args.posonlyargs) == len(node.args) \
                    and all(isinstance(a_, (ast.Name, ast.Attribute, ast.Constant)) for a_ in node.args):
                bind = dict(zip([a_.arg for a_ in lam.args.posonlyargs + lam.args.args], node.args))

                class _B(ast.NodeTransformer):
                    def visit_Name(self, n):
                        return _c.deepcopy(bind[n.id]) if n.id in bind and isinstance(n.ctx, ast.Load) else n
                return ast.copy_location(_B().visit(_c.deepcopy(lam.body)), node)
            return node

    def unroll(stmts: List[ast.stmt]) -> List[ast.stmt]:
        out: List[ast.stmt] = []
        for st in stmts:
            for fld in ("body", "orelse", "finalbody"):
                v = getattr(st, fld, None)
                if isinstance(v, list) and v and isinstance(v[0], ast.stmt):
                    setattr(st, fld, unroll(v))
            if isinstance(st, ast.Try):
                for h in st.handlers:
                    h.body = unroll(h.body)
            rows_here = None
            if isinstance(st, ast.For) and isinstance(st.iter, ast.Name) and st.iter.id in rows and st.iter.id not in rebound:
                rows_here = rows[st.iter.id]
            elif isinstance(st, ast.For) and isinstance(st.iter, ast.Name) and st.iter.id in local_rows:
                rows_here = local_rows[st.iter.id]
            elif isinstance(st, ast.For) and _rows_literal(st.iter):
                rows_here = [list(e.elts) for e in st.iter.elts]
            if isinstance(st, ast.For) and not st.orelse and isinstance(st.target, ast.Tuple) and rows_here is not None \
                    and len(rows_here) <= 8 \
                    and all(isinstance(t_, ast.Name) for t_ in st.target.elts) and len(st.target.elts) == len(rows_here[0]) \
                    and not any(isinstance(x, (ast.Break, ast.Continue)) for b in st.body for x in ast.walk(b)) \
                    and not any(isinstance(x, ast.Name) and x.id in {t_.id for t_ in st.target.elts} and isinstance(x.ctx, ast.Store)
                                for b in st.body for x in ast.walk(b)):
                names_ = [t_.id for t_ in st.target.elts]

                class _SR(ast.NodeTransformer):
                    def __init__(self, row):
                        self.row = dict(zip(names_, row))

                    def visit_Name(self, n):
                        return _c.deepcopy(self.row[n.id]) if n.id in self.row and isinstance(n.ctx, ast.Load) else n

                for row in rows_here:
                    for b in st.body:
                        nb = _Beta().visit(_SR(row).visit(_c.deepcopy(b)))
                        nb = _G().visit(nb)
                        ast.copy_location(nb, st)
                        out.append(nb)
                continue
            elts = None
            if isinstance(st, ast.For) and not st.orelse and isinstance(st.target, ast.Name):
                if isinstance(st.iter, (ast.Tuple, ast.List)) and st.iter.elts and all(isinstance(e, ast.Constant) for e in st.iter.elts):
                    elts = list(st.iter.elts)
                elif isinstance(st.iter, ast.Name) and st.iter.id in consts and st.iter.id not in rebound:
                    elts = consts[st.iter.id]
            if elts is not None and len(elts) <= 8 and not any(isinstance(x, (ast.Break, ast.Continue)) for b in st.body for x in ast.walk(b)) \
                    and not any(isinstance(x, ast.Name) and x.id == st.target.id and isinstance(x.ctx, ast.Store) for b in st.body for x in ast.walk(b)):
                var = st.target.id

                class _S(ast.NodeTransformer):
                    def __init__(self, e):
                        self.e = e

                    def visit_Name(self, n):
                        return _c.deepcopy(self.e) if n.id == var and isinstance(n.ctx, ast.Load) else n

                for e in elts:
                    for b in st.body:
                        nb = _G().visit(_S(e).visit(_c.deepcopy(b)))
                        ast.copy_location(nb, st)
                        out.append(nb)
                continue
            out.append(st)
        return out

    def partials(fn: ast.AST) -> None:
        defs: Dict[str, List[ast.Assign]] = {}
        for n in ast.walk(fn):
            if isinstance(n, ast.Assign) and len(n.targets) == 1 and isinstance(n.targets[0], ast.Name):
                defs.setdefault(n.targets[0].id, []).append(n)
        table = {}
        for name, ds in defs.items():
            if len(ds) == 1 and isinstance(ds[0].value, ast.Call) and ast.unparse(ds[0].value.func).split(".")[-1] == "partial" \
                    and len(ds[0].value.args) == 1 and all(k.arg is not None for k in ds[0].value.keywords):
                table[name] = ds[0]
        if not table:
            return

        class _P(ast.NodeTransformer):
            def visit_Call(self, node: ast.Call):
                self.generic_visit(node)
                if isinstance(node.func, ast.Name) and node.func.id in table:
                    d = table[node.func.id].value
                    return ast.copy_location(ast.Call(func=_c.deepcopy(d.args[0]), args=node.args, keywords=[_c.deepcopy(k) for k in d.keywords] + node.keywords), node)
                callee = ast.unparse(node.func).split(".")[-1]
                if callee in ("submit", "to_thread", "to_thread_in_executor") and node.args and isinstance(node.args[0], ast.Name) and node.args[0].id in table \
                        and not any(k.arg is None for k in node.keywords):
                    d = table[node.args[0].id].value
                    node.args = [_c.deepcopy(d.args[0])] + node.args[1:]
                    node.keywords = node.keywords + [_c.deepcopy(k) for k in d.keywords]
                return node

        _P().visit(fn)
        # a partial all of whose uses were rewritten is dead: the binding goes
        dead = {name for name in table if not any(isinstance(x, ast.Name) and x.id == name and isinstance(x.ctx, ast.Load) for x in ast.walk(fn))}
        if dead:
            def prune(stmts: List[ast.stmt]) -> List[ast.stmt]:
                out = []
                for st in stmts:
                    if isinstance(st, ast.Assign) and len(st.targets) == 1 and isinstance(st.targets[0], ast.Name) and st.targets[0].id in dead \
                            and st is table[st.targets[0].id]:
                        continue
                    for fld in ("body", "orelse", "finalbody"):
                        v = getattr(st, fld, None)
                        if isinstance(v, list) and v and isinstance(v[0], ast.stmt) and not isinstance(st, (ast.FunctionDef, ast.AsyncFunctionDef, ast.ClassDef)):
                            setattr(st, fld, prune(v) or [ast.copy_location(ast.Pass(), st)])
                    if isinstance(st, ast.Try):
                        for h in st.handlers:
                            h.body = prune(h.body) or [ast.copy_location(ast.Pass(), st)]
                    out.append(st)
                return out

            fn.body = prune(fn.body) or [ast.Pass()]

    tree.body = unroll(tree.body)
    # a local table whose only reader was an unrolled loop is dead: its binding goes
    dead_tables = {nm for nm in local_rows if not any(isinstance(x, ast.Name) and x.id == nm and isinstance(x.ctx, ast.Load) for x in ast.walk(tree))}
    if dead_tables:
        def _drop(stmts: List[ast.stmt]) -> List[ast.stmt]:
            keep = []
            for st in stmts:
                if isinstance(st, ast.Assign) and len(st.targets) == 1 and isinstance(st.targets[0], ast.Name) and st.targets[0].id in dead_tables:
                    continue
                for fld in ("body", "orelse", "finalbody"):
                    v = getattr(st, fld, None)
                    if isinstance(v, list) and v and isinstance(v[0], ast.stmt):
                        setattr(st, fld, _drop(v) or [ast.copy_location(ast.Pass(), st)])
                if isinstance(st, ast.Try):
                    for h in st.handlers:
                        h.body = _drop(h.body) or [ast.copy_location(ast.Pass(), st)]
                keep.append(st)
            return keep
        tree.body = _drop(tree.body)
    for fn in [n for n in ast.walk(tree) if isinstance(n, (ast.FunctionDef, ast.AsyncFunctionDef))]:
        partials(fn)


def _dispatch_tables(fn) -> None:
    """A local dispatch table  D = {K1: f1, K2: f2}  (bound once, values are names) used as

        s = D.get(E, fdefault)          or   s = D[E]
        s(args)

    is read as the if-chain it abbreviates:  if E == K1: f1(args) elif E == K2: f2(args) else: fdefault(args)."""
    import copy as _c

    tables: Dict[str, ast.Dict] = {}
    n_asg: Dict[str, int] = {}
    for n in ast.walk(fn):
        if isinstance(n, (ast.Assign, ast.AnnAssign)) and n.value is not None:
            t = n.targets[0] if isinstance(n, ast.Assign) and len(n.targets) == 1 else (n.target if isinstance(n, ast.AnnAssign) else None)
            if isinstance(t, ast.Name):
                n_asg[t.id] = n_asg.get(t.id, 0) + 1
                if isinstance(n.value, ast.Dict) and n.value.keys and all(k is not None and isinstance(k, (ast.Attribute, ast.Constant, ast.Name)) for k in n.value.keys) \
                        and all(isinstance(v, ast.Name) for v in n.value.values):
                    tables[t.id] = n.value
    tables = {k: v for k, v in tables.items() if n_asg.get(k) == 1}
    if not tables:
        return

    def lookup(e: ast.AST):
        """(table, key expression, default name or None) for D.get(E, d) / D[E]."""
        if isinstance(e, ast.Call) and isinstance(e.func, ast.Attribute) and e.func.attr == "get" and isinstance(e.func.value, ast.Name) \
                and e.func.value.id in tables and len(e.args) == 2 and isinstance(e.args[1], ast.Name) and not e.keywords:
            return tables[e.func.value.id], e.args[0], e.args[1]
        if isinstance(e, ast.Subscript) and isinstance(e.value, ast.Name) and e.value.id in tables:
            return tables[e.value.id], e.slice, None
        return None

    def plain(e: ast.AST) -> bool:
        return isinstance(e, (ast.Name, ast.Constant)) or (isinstance(e, ast.Attribute) and plain(e.value))

    def chain(tbl: ast.Dict, key: ast.AST, dflt, call: ast.Call, wrap, at: ast.stmt) -> ast.stmt:
        def mk(fname: ast.AST) -> ast.stmt:
            c = ast.Call(func=_c.deepcopy(fname), args=[_c.deepcopy(a) for a in call.args], keywords=[_c.deepcopy(k) for k in call.keywords])
            return ast.copy_location(wrap(c), at)
        orelse: List[ast.stmt] = [mk(dflt)] if dflt is not None else \
            [ast.copy_location(ast.Raise(exc=ast.Call(func=ast.Name(id="KeyError", ctx=ast.Load()), args=[_c.deepcopy(key)], keywords=[]), cause=None), at)]
        for k, v in reversed(list(zip(tbl.keys, tbl.values))):
            test = ast.Compare(left=_c.deepcopy(key), ops=[ast.Eq()], comparators=[_c.deepcopy(k)])
            orelse = [ast.copy_location(ast.If(test=test, body=[mk(v)], orelse=orelse), at)]
        return orelse[0]

    def rewrite(stmts: List[ast.stmt]) -> List[ast.stmt]:
        out: List[ast.stmt] = []
        i = 0
        while i < len(stmts):
            st = stmts[i]
            for fld in ("body", "orelse", "finalbody"):
                v = getattr(st, fld, None)
                if isinstance(v, list) and v and isinstance(v[0], ast.stmt) and not isinstance(st, (ast.FunctionDef, ast.AsyncFunctionDef, ast.ClassDef)):
                    setattr(st, fld, rewrite(v))
            if isinstance(st, ast.Try):
                for h in st.handlers:
                    h.body = rewrite(h.body)
            done = False
            # s = D.get(E, d) ; s(args)
            if isinstance(st, ast.Assign) and len(st.targets) == 1 and isinstance(st.targets[0], ast.Name) and i + 1 < len(stmts):
                lk = lookup(st.value)
                nx = stmts[i + 1]
                sname = st.targets[0].id
                call = nx.value if isinstance(nx, ast.Expr) else None
                aw = False
                if isinstance(call, ast.Await):
                    call, aw = call.value, True
                uses = sum(1 for x in ast.walk(fn) if isinstance(x, ast.Name) and x.id == sname)
                if lk is not None and plain(lk[1]) and isinstance(call, ast.Call) and isinstance(call.func, ast.Name) and call.func.id == sname and uses == 2:
                    wrap = (lambda c: ast.Expr(value=ast.Await(value=c))) if aw else (lambda c: ast.Expr(value=c))
                    out.append(chain(lk[0], lk[1], lk[2], call, wrap, nx))
                    i += 2
                    done = True
            # D.get(E, d)(args)  /  D[E](args)
            if not done and isinstance(st, ast.Expr) and isinstance(st.value, ast.Call):
                lk = lookup(st.value.func)
                if lk is not None and plain(lk[1]):
                    out.append(chain(lk[0], lk[1], lk[2], st.value, lambda c: ast.Expr(value=c), st))
                    i += 1
                    done = True
            if not done:
                out.append(st)
                i += 1
        return out

    fn.body = rewrite(fn.body)
    # a table that is no longer read is dead: its binding goes
    for name in list(tables):
        if not any(isinstance(x, ast.Name) and x.id == name and isinstance(x.ctx, ast.Load) for x in ast.walk(fn)):
            def prune(stmts: List[ast.stmt]) -> List[ast.stmt]:
                keep = []
                for st in stmts:
                    t = st.targets[0] if isinstance(st, ast.Assign) and len(st.targets) == 1 else (st.target if isinstance(st, ast.AnnAssign) else None)
                    if isinstance(t, ast.Name) and t.id == name and getattr(st, "value", None) is tables[name]:
                        continue
                    for fld in ("body", "orelse", "finalbody"):
                        v = getattr(st, fld, None)
                        if isinstance(v, list) and v and isinstance(v[0], ast.stmt) and not isinstance(st, (ast.FunctionDef, ast.AsyncFunctionDef, ast.ClassDef)):
                            setattr(st, fld, prune(v) or [ast.copy_location(ast.Pass(), st)])
                    keep.append(st)
                return keep
            fn.body = prune(fn.body)
    ast.fix_missing_locations(fn)


def _accumulator_loops(fn) -> None:
    """The accumulate-in-a-loop spelling of a comprehension is read as the comprehension:

        acc = []                      acc = [E for T in IT if C]
        for T in IT:           ==>
            if C:                     (likewise `acc = {}` ... `acc[K] = V`, `acc = set()` ... `acc.add(E)`)
                acc.append(E)

    when the empty initialisation is the statement just before the loop and the loop does nothing else."""
    def empty_kind(v: ast.AST) -> Optional[str]:
        if isinstance(v, ast.List) and not v.elts:
            return "list"
        if isinstance(v, ast.Dict) and not v.keys:
            return "dict"
        if isinstance(v, ast.Call) and isinstance(v.func, ast.Name) and not v.args and not v.keywords and v.func.id in ("list", "dict", "set"):
            return v.func.id
        return None

    def go(stmts: List[ast.stmt]) -> None:
        i = 0
        while i < len(stmts):
            st = stmts[i]
            for fld in ("body", "orelse", "finalbody"):
                v = getattr(st, fld, None)
                if isinstance(v, list) and v and isinstance(v[0], ast.stmt) and not isinstance(st, (ast.FunctionDef, ast.AsyncFunctionDef, ast.ClassDef)):
                    go(v)
            if isinstance(st, ast.Try):
                for h in st.handlers:
                    go(h.body)
            init = st
            tgt = init.targets[0] if isinstance(init, ast.Assign) and len(init.targets) == 1 else (init.target if isinstance(init, ast.AnnAssign) else None)
            kind = empty_kind(init.value) if isinstance(init, (ast.Assign, ast.AnnAssign)) and init.value is not None else None
            if isinstance(tgt, ast.Name) and kind and i + 1 < len(stmts) and isinstance(stmts[i + 1], ast.For) and not stmts[i + 1].orelse:
                lp = stmts[i + 1]
                acc = tgt.id
                conds: List[ast.AST] = []
                body = lp.body
                while len(body) == 1 and isinstance(body[0], ast.If) and not body[0].orelse:
                    conds.append(body[0].test)
                    body = body[0].body
                new_val = None
                if len(body) == 1 and not any(isinstance(x, ast.Name) and x.id == acc for c_ in conds for x in ast.walk(c_)) \
                        and not any(isinstance(x, ast.Name) and x.id == acc for x in ast.walk(lp.iter)):
                    b = body[0]
                    gen = ast.comprehension(target=lp.target, iter=lp.iter, ifs=conds, is_async=0)
                    call = b.value if isinstance(b, ast.Expr) and isinstance(b.value, ast.Call) else None
                    if call is not None and isinstance(call.func, ast.Attribute) and isinstance(call.func.value, ast.Name) and call.func.value.id == acc \
                            and len(call.args) == 1 and not call.keywords and not any(isinstance(x, ast.Name) and x.id == acc for x in ast.walk(call.args[0])):
                        if kind == "list" and call.func.attr == "append":
                            new_val = ast.ListComp(elt=call.args[0], generators=[gen])
                        elif kind == "set" and call.func.attr == "add":
                            new_val = ast.SetComp(elt=call.args[0], generators=[gen])
                        elif kind == "list" and call.func.attr == "extend" and not conds:
                            inner = ast.Name(id=f"_{acc}__item", ctx=ast.Load())
                            new_val = ast.ListComp(elt=inner, generators=[gen, ast.comprehension(
                                target=ast.Name(id=f"_{acc}__item", ctx=ast.Store()), iter=call.args[0], ifs=[], is_async=0)])
                    elif kind == "dict" and isinstance(b, ast.Assign) and len(b.targets) == 1 and isinstance(b.targets[0], ast.Subscript) \
                            and isinstance(b.targets[0].value, ast.Name) and b.targets[0].value.id == acc \
                            and not any(isinstance(x, ast.Name) and x.id == acc for x in ast.walk(b.value)) \
                            and not any(isinstance(x, ast.Name) and x.id == acc for x in ast.walk(b.targets[0].slice)):
                        new_val = ast.DictComp(key=b.targets[0].slice, value=b.value, generators=[gen])
                if new_val is not None:
                    init.value = ast.copy_location(new_val, lp)
                    ast.fix_missing_locations(init)
                    del stmts[i + 1]
            i += 1

    go(fn.body)


def canonical(tree: ast.Module) -> ast.Module:
    tree = _Canon().visit(tree)
    _module_passes(tree)
    tree = _Canon2().visit(tree)
    for fn in [n for n in ast.walk(tree) if isinstance(n, (ast.FunctionDef, ast.AsyncFunctionDef))]:
        _dispatch_tables(fn)
        _accumulator_loops(fn)
        _aliases(fn)
        _explaining_variables(fn)
        _set_updates(fn)
    tree = _Canon2().visit(tree)  # the substituted conditions may expose `not (..)` again
    ast.fix_missing_locations(tree)
    return tree


class LoadError(Exception):
    pass


class Program:
    def __init__(self, root: str, pkg: str, overrides: Optional[Dict[str, str]] = None):
        self.root = root
        self.pkg = pkg
        self.overrides = dict(overrides or {})
        self.modules: Dict[str, ModInfo] = {}
        self.classes: Dict[str, ClassInfo] = {}
        self.funcs: Dict[str, FuncInfo] = {}
        pkg_dir = os.path.join(root, pkg)
        if not os.path.isdir(pkg_dir):
            raise LoadError(f"package directory {pkg_dir} not found")
        for dp, dn, fn in sorted(os.walk(pkg_dir)):
            dn[:] = sorted(d for d in dn if d != "__pycache__")
            for f in sorted(fn):
                if not f.endswith(".py"):
                    continue
                p = os.path.join(dp, f)
                relp = os.path.relpath(p, root)
                modname = relp[:-3].replace(os.sep, ".")
                is_pkg = modname.endswith(".__init__")
                if is_pkg:
                    modname = modname[: -len(".__init__")]
                src = self.overrides.get(relp)
                if src is None:
                    with open(p, encoding="utf-8") as fh:
                        src = fh.read()
                try:
                    tree = canonical(ast.parse(src, p))
                except SyntaxError as e:  # the tree does not even compile
                    raise LoadError(f"{relp}: {e}") from e
                self.modules[modname] = ModInfo(modname, p, relp, src, tree, is_pkg)
        # virtual modules (positive controls): overrides that do not exist on disk
        for relp, src in self.overrides.items():
            modname = relp[:-3].replace(os.sep, ".")
            if relp.endswith(".py") and modname not in self.modules and not modname.endswith("__init__"):
                self.modules[modname] = ModInfo(modname, os.path.join(root, relp), relp, src, canonical(ast.parse(src, relp)), False)
        # helpers the rules know by name, found by structure when they were renamed (the unchanged tree is left as it is)
        from .roles import canonical_roles

        self.roles: Dict[str, str] = canonical_roles({name: m.tree for name, m in self.modules.items()})
        from .roles import outline_activation

        if outline_activation({name: m.tree for name, m in self.modules.items() if not name.endswith("_twzsa_control")}):
            self.roles["_xn_active_in_call"] = "(written in place)"
        # helpers introduced after the rules were written are read as if written in place (the unchanged tree has none)
        from .inline import inline_new_helpers, scalarize_new_aggregates
        from .known_names import KNOWN_CLASSES, KNOWN_FUNCTIONS

        real = {name: m.tree for name, m in self.modules.items() if not name.endswith("_twzsa_control")}
        from .inline import specialise_callbacks

        from .inline import specialise_record_params

        from .inline import flatten_temporary_objects, flatten_decorator_compositions

        spec = flatten_decorator_compositions(real) + specialise_callbacks(real) + specialise_record_params(real, set(KNOWN_CLASSES)) \
            + flatten_temporary_objects(real, set(KNOWN_CLASSES))
        self.inlined: List[str] = spec + inline_new_helpers(real, set(KNOWN_FUNCTIONS))
        if self.inlined:
            for t in real.values():
                _module_passes(t)  # record displays / constant loops / partials that the expansion brought into place
        self.inlined += scalarize_new_aggregates(real, set(KNOWN_CLASSES))
        if self.inlined:
            # the expanded bodies bring their own shortcuts (aliases, explaining variables): read them in the usual form too
            for t in real.values():
                for fn_ in [n for n in ast.walk(t) if isinstance(n, (ast.FunctionDef, ast.AsyncFunctionDef))]:
                    _aliases(fn_)
                    _explaining_variables(fn_)
                    _set_updates(fn_)
                _Canon2().visit(t)
                ast.fix_missing_locations(t)
                from .inline import _fold_generated_aliases

                for fn_ in [n for n in ast.walk(t) if isinstance(n, (ast.FunctionDef, ast.AsyncFunctionDef))]:
                    _fold_generated_aliases(fn_)
                ast.fix_missing_locations(t)
        for m in self.modules.values():
            for s in m.tree.body:
                self._index_stmt(m, s)
        for c in self.classes.values():
            bases = []
            for b in c.node.bases:
                d = ast.unparse(b).split("[")[0]
                bases.append(self.resolve_name(c.module, d) or d)
            c.bases = bases

    # ------------------------------------------------------------------ digests
    def digests(self) -> Dict[str, str]:
        return {m.rel: hashlib.sha256(m.source.encode()).hexdigest()[:16] for m in self.modules.values()}

    # ------------------------------------------------------------------ indexing
    def _abs_from(self, m: ModInfo, node: ast.ImportFrom) -> str:
        if node.level == 0:
            return node.module or ""
        base = m.name.split(".")
        if not m.is_pkg:
            base = base[:-1]
        base = base[: len(base) - (node.level - 1)]
        return ".".join(base + ([node.module] if node.module else []))

    def _index_stmt(self, m: ModInfo, s: ast.stmt) -> None:
        if isinstance(s, ast.Import):
            for a in s.names:
                if a.asname:
                    m.imports[a.asname] = a.name
                else:
                    m.imports[a.name.split(".")[0]] = a.name.split(".")[0]
        elif isinstance(s, ast.ImportFrom):
            base = self._abs_from(m, s)
            for a in s.names:
                m.imports[a.asname or a.name] = f"{base}.{a.name}" if base else a.name
        elif isinstance(s, ast.ClassDef):
            c = ClassInfo(f"{m.name}.{s.name}", m, s)
            m.classes[s.name] = c
            self.classes[c.qualname] = c
            for b in s.body:
                if isinstance(b, (ast.FunctionDef, ast.AsyncFunctionDef)):
                    f = FuncInfo(f"{c.qualname}.{b.name}", m, b, cls=c)
                    key = b.name
                    if key in c.methods:
                        # property setter / overloads: keep the first under its name
                        key = b.name + "@2"
                        f.qualname = f"{c.qualname}.{key}"
                    c.methods[key] = f
                    self.funcs[f.qualname] = f
                    self._index_nested(f)
                elif isinstance(b, ast.AnnAssign) and isinstance(b.target, ast.Name):
                    c.fields[b.target.id] = b.annotation
                    c.field_defaults[b.target.id] = b.value
        elif isinstance(s, (ast.FunctionDef, ast.AsyncFunctionDef)):
            f = FuncInfo(f"{m.name}.{s.name}", m, s)
            m.funcs[s.name] = f  # overloads: the last (the implementation) wins
            self.funcs[f.qualname] = f
            self._index_nested(f)
        elif isinstance(s, (ast.Assign, ast.AnnAssign)):
            tg = s.targets if isinstance(s, ast.Assign) else [s.target]
            for t in tg:
                if isinstance(t, ast.Name):
                    m.globals_[t.id] = s
        elif isinstance(s, (ast.If, ast.Try)):
            for b in ast.iter_child_nodes(s):
                if isinstance(b, ast.stmt):
                    self._index_stmt(m, b)

    def _index_nested(self, f: FuncInfo) -> None:
        def go(parent: FuncInfo, body_owner: ast.AST) -> None:
            for n in iter_own_nodes(body_owner):
                if isinstance(n, (ast.FunctionDef, ast.AsyncFunctionDef)):
                    g = FuncInfo(f"{parent.qualname}.<locals>.{n.name}", parent.module, n, cls=None, parent=parent)
                    self.funcs.setdefault(g.qualname, g)
                    go(g, n)

        go(f, f.node)

    # ------------------------------------------------------------------ names
    def resolve_name(self, m: ModInfo, dotted: str) -> Optional[str]:
        head, *rest = dotted.split(".")
        if head in m.classes:
            q = m.classes[head].qualname
        elif head in m.funcs:
            q = m.funcs[head].qualname
        elif head in m.globals_:
            q = f"{m.name}.{head}"
        elif head in m.imports:
            q = self.canon(m.imports[head])
        else:
            return None
        for r in rest:
            q = self.canon(f"{q}.{r}")
        return q

    def canon(self, q: str, depth: int = 0) -> str:
        if depth > 8:
            return q
        if q in self.modules or q in self.classes or q in self.funcs:
            return q
        if "." in q:
            mod, name = q.rsplit(".", 1)
            mod = self.canon(mod, depth + 1)
            if mod in self.modules:
                mi = self.modules[mod]
                if name in mi.classes:
                    return mi.classes[name].qualname
                if name in mi.funcs:
                    return mi.funcs[name].qualname
                if name in mi.globals_:
                    return f"{mod}.{name}"
                if name in mi.imports:
                    return self.canon(mi.imports[name], depth + 1)
                if f"{mod}.{name}" in self.modules:
                    return f"{mod}.{name}"
            if mod in self.classes:
                mm = self.find_method(self.classes[mod], name)
                if mm:
                    return mm.qualname
            return f"{mod}.{name}"
        return q

    def mro(self, c: ClassInfo) -> List[ClassInfo]:
        out: List[ClassInfo] = []
        seen = set()

        def go(ci: ClassInfo) -> None:
            if ci.qualname in seen:
                return
            seen.add(ci.qualname)
            out.append(ci)
            for b in ci.bases:
                if b in self.classes:
                    go(self.classes[b])

        go(c)
        return out

    def subclasses(self, q: str) -> List[ClassInfo]:
        return [c for c in self.classes.values() if any(x.qualname == q for x in self.mro(c))]

    def is_subclass(self, q: str, base: str) -> bool:
        c = self.classes.get(q)
        return bool(c) and any(x.qualname == base for x in self.mro(c))

    def find_method(self, c: ClassInfo, name: str) -> Optional[FuncInfo]:
        for ci in self.mro(c):
            if name in ci.methods:
                return ci.methods[name]
        return None

    def find_field(self, c: ClassInfo, name: str):
        for ci in self.mro(c):
            if name in ci.fields:
                return ci.fields[name], ci
        return None

    def all_fields(self, c: ClassInfo) -> Dict[str, ast.AST]:
        out: Dict[str, ast.AST] = {}
        for ci in reversed(self.mro(c)):
            out.update(ci.fields)
        return out

    def func(self, qualname: str) -> FuncInfo:
        f = self.funcs.get(qualname)
        if f is None:
            raise KeyError(qualname)
        return f

    def nested(self, f: FuncInfo, name: str) -> Optional[FuncInfo]:
        return self.funcs.get(f"{f.qualname}.<locals>.{name}")

    def enclosing_chain(self, f: FuncInfo) -> List[FuncInfo]:
        out = [f]
        while out[-1].parent is not None:
            out.append(out[-1].parent)
        return out


def iter_own_nodes(fn: ast.AST) -> Iterator[ast.AST]:
    """Walk the body of ``fn`` without descending into nested defs/classes (the nested def node itself is yielded).

    Lambdas and comprehensions are descended into.
    """
    stack = list(reversed(getattr(fn, "body", [])))
    if isinstance(fn, ast.Lambda):
        stack = [fn.body]
    while stack:
        n = stack.pop()
        yield n
        if isinstance(n, (ast.FunctionDef, ast.AsyncFunctionDef, ast.ClassDef)):
            continue
        stack.extend(reversed(list(ast.iter_child_nodes(n))))


def own_walk(node: ast.AST) -> Iterator[ast.AST]:
    """ast.walk that does not enter nested function/class definitions (node itself is yielded first)."""
    stack = [node]
    first = True
    while stack:
        n = stack.pop()
        yield n
        if not first and isinstance(n, (ast.FunctionDef, ast.AsyncFunctionDef, ast.ClassDef)):
            continue
        first = False
        stack.extend(reversed(list(ast.iter_child_nodes(n))))
