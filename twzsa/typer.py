"""Annotation-driven light type inference (no mypy available in this sandbox).

Type terms are tuples:
  ("any",) ("none",) ("str",) ("int",) ("bool",) ("float",) ("bytes",)
  ("cls", qualname)            instance of a package class
  ("type", qualname)           the class object
  ("func", qualname)           a package function
  ("method", qualname, recv)   bound method of a package class
  ("module", name)
  ("ext", dotted)              external object (function / class / module) by dotted path
  ("extinst", dotted)          instance of an external class
  ("list", T) ("set", T) ("dict", K, V) ("tuple", (T...)) ("union", (T...))
  ("bm", name, recvT)          bound builtin-container method
  ("items", K, V) ("enumerate", T) ("zip", (T...))   iteration helpers
"""
from __future__ import annotations

import ast
from typing import Dict, Optional, Tuple

from .loader import ClassInfo, FuncInfo, ModInfo, Program, iter_own_nodes

ANY = ("any",)
NONE = ("none",)


def cls(q: str) -> tuple:
    return ("cls", q)


SEQ = {
    "List": "list", "list": "list", "Sequence": "list", "Iterable": "list", "Iterator": "list",
    "Collection": "list", "Set": "set", "set": "set", "FrozenSet": "set", "frozenset": "set",
    "AbstractSet": "set",
}
MAP = {"Dict": "dict", "dict": "dict", "Mapping": "dict", "MutableMapping": "dict", "defaultdict": "dict",
       "DefaultDict": "dict", "OrderedDict": "dict"}
PRIMS = {"str", "int", "bool", "float", "bytes"}


class Typer:
    def __init__(self, P: Program):
        self.P = P
        self.env_cache: Dict[str, dict] = {}
        self._alias_guard = 0
        # package classes that subclass Dict[...] are typed as dicts
        self.dict_classes = set()
        for q, c in P.classes.items():
            for b in c.node.bases:
                if ast.unparse(b).split("[")[0].split(".")[-1] in MAP:
                    self.dict_classes.add(q)

    # ------------------------------------------------------------------ annotations
    def ann(self, m: ModInfo, a) -> tuple:
        if a is None:
            return ANY
        if isinstance(a, ast.Constant):
            if isinstance(a.value, str):
                try:
                    return self.ann(m, ast.parse(a.value, mode="eval").body)
                except SyntaxError:
                    return ANY
            if a.value is None:
                return NONE
            return ANY
        if isinstance(a, (ast.Name, ast.Attribute)):
            d = ast.unparse(a)
            last = d.split(".")[-1]
            if d in PRIMS:
                return (d,)
            if last in ("Any",):
                return ANY
            if last == "Self":
                return ("self",)
            if last in SEQ and (d == last or d.startswith("typing.")):
                return (SEQ[last], ANY)
            if last in MAP and (d == last or d.startswith("typing.") or d.startswith("collections.")):
                return ("dict", ANY, ANY)
            q = self.P.resolve_name(m, d)
            if q in self.P.classes:
                if q in self.dict_classes:
                    return ("dict", ANY, ANY, q)
                return cls(q)
            if q and "." in q and q.rsplit(".", 1)[0] in self.P.modules:
                mod, name = q.rsplit(".", 1)
                st = self.P.modules[mod].globals_.get(name)
                if isinstance(st, ast.Assign) and self._alias_guard < 6:
                    # module-level alias such as Identifier = str, ReturnUXNsType = Union[...]
                    v = st.value
                    if isinstance(v, (ast.Name, ast.Attribute, ast.Subscript, ast.Constant)):
                        self._alias_guard += 1
                        try:
                            return self.ann(self.P.modules[mod], v)
                        finally:
                            self._alias_guard -= 1
                    if isinstance(v, ast.Call):  # TypeVar(...), ParamSpec(...)
                        return ANY
            return ("extinst", q or d)
        if isinstance(a, ast.Subscript):
            base = ast.unparse(a.value).split(".")[-1]
            sl = a.slice
            args = list(sl.elts) if isinstance(sl, ast.Tuple) else [sl]
            if base == "Optional":
                return self.ann(m, args[0])
            if base == "Union":
                ts = [self.ann(m, x) for x in args]
                ts = [t for t in ts if t != NONE]
                return ts[0] if len(ts) == 1 else ("union", tuple(ts))
            if base in SEQ:
                return (SEQ[base], self.ann(m, args[0]))
            if base in MAP:
                return ("dict", self.ann(m, args[0]), self.ann(m, args[1]) if len(args) > 1 else ANY)
            if base in ("Tuple", "tuple"):
                if len(args) == 2 and isinstance(args[1], ast.Constant) and args[1].value is Ellipsis:
                    return ("list", self.ann(m, args[0]))
                return ("tuple", tuple(self.ann(m, x) for x in args))
            if base in ("Type", "Callable", "Literal", "Generic", "ClassVar", "Awaitable", "Coroutine"):
                return ANY
            t = self.ann(m, a.value)
            if t[0] == "dict" and len(t) == 4 and len(args) == 2:
                return ("dict", self.ann(m, args[0]), self.ann(m, args[1]), t[3])
            return t
        if isinstance(a, ast.BinOp) and isinstance(a.op, ast.BitOr):
            ts = [t for t in (self.ann(m, a.left), self.ann(m, a.right)) if t != NONE]
            return ts[0] if len(ts) == 1 else ("union", tuple(ts))
        return ANY

    # ------------------------------------------------------------------ environments
    def env(self, f: FuncInfo) -> dict:
        if f.qualname in self.env_cache:
            return self.env_cache[f.qualname]
        env: dict = {}
        self.env_cache[f.qualname] = env
        if f.parent is not None:
            env.update(self.env(f.parent))
        a = f.node.args  # type: ignore[attr-defined]
        params = a.posonlyargs + a.args + a.kwonlyargs
        is_static = any(d in ("staticmethod",) for d in f.decorators())
        is_cm = any(d in ("classmethod",) for d in f.decorators())
        for i, p in enumerate(params):
            if i == 0 and f.cls is not None and not is_static and p in (a.posonlyargs + a.args):
                env[p.arg] = ("type", f.cls.qualname) if is_cm else cls(f.cls.qualname)
            else:
                t = self.ann(f.module, p.annotation)
                env[p.arg] = cls(f.cls.qualname) if t == ("self",) and f.cls is not None else t
        if a.vararg:
            env[a.vararg.arg] = ("list", self.ann(f.module, a.vararg.annotation))
        if a.kwarg:
            env[a.kwarg.arg] = ("dict", ("str",), self.ann(f.module, a.kwarg.annotation))
        for _ in range(3):
            for n in iter_own_nodes(f.node):
                if isinstance(n, ast.AnnAssign) and isinstance(n.target, ast.Name):
                    t = self.ann(f.module, n.annotation)
                    env[n.target.id] = cls(f.cls.qualname) if t == ("self",) and f.cls is not None else t
                elif isinstance(n, ast.Assign):
                    t = self.expr(f, n.value, env)
                    for tg in n.targets:
                        self.bind(tg, t, env)
                elif isinstance(n, (ast.For, ast.AsyncFor)):
                    self.bind(n.target, self.elem(self.expr(f, n.iter, env)), env)
                elif isinstance(n, ast.comprehension):
                    self.bind(n.target, self.elem(self.expr(f, n.iter, env)), env)
                elif isinstance(n, (ast.With, ast.AsyncWith)):
                    for it in n.items:
                        if it.optional_vars is not None:
                            self.bind(it.optional_vars, self.expr(f, it.context_expr, env), env)
                elif isinstance(n, ast.ExceptHandler) and n.name:
                    env[n.name] = ("extinst", ast.unparse(n.type) if n.type is not None else "BaseException")
                elif isinstance(n, ast.NamedExpr) and isinstance(n.target, ast.Name):
                    self.bind(n.target, self.expr(f, n.value, env), env)
        return env

    def bind(self, tg, t, env) -> None:
        if isinstance(tg, ast.Name):
            old = env.get(tg.id)
            if old is not None and old != ANY and (t == ANY or t == NONE):
                return
            if old is not None and old != ANY and t != old and old[0] in ("cls", "dict", "list", "set") and t[0] == "extinst":
                return
            env[tg.id] = t
        elif isinstance(tg, (ast.Tuple, ast.List)):
            if t[0] == "tuple" and len(t[1]) == len(tg.elts):
                for e, et in zip(tg.elts, t[1]):
                    self.bind(e, et, env)
            else:
                et = self.elem(t) if t[0] in ("list", "set") else ANY
                for e in tg.elts:
                    self.bind(e.value if isinstance(e, ast.Starred) else e, et, env)

    def elem(self, t) -> tuple:
        if t[0] in ("list", "set"):
            return t[1]
        if t[0] == "dict":
            return t[1]
        if t[0] == "items":
            return ("tuple", (t[1], t[2]))
        if t[0] == "enumerate":
            return ("tuple", (("int",), t[1]))
        if t[0] == "zip":
            return ("tuple", tuple(t[1]))
        if t[0] == "cls" and self._is_graph(t[1]):
            return ("str",)
        if t[0] == "tuple" and t[1] and all(x == t[1][0] for x in t[1]):
            return t[1][0]
        return ANY

    def _is_graph(self, q: str) -> bool:
        c = self.P.classes.get(q)
        if c is None:
            return False
        for ci in self.P.mro(c):
            for b in ci.bases:
                if b.endswith("DiGraph") or b.endswith("Graph"):
                    return True
        return False

    # ------------------------------------------------------------------ expressions
    def expr(self, f: FuncInfo, e, env: Optional[dict] = None) -> tuple:
        env = self.env(f) if env is None else env
        m = f.module
        if isinstance(e, ast.Name):
            if e.id in env:
                return env[e.id]
            g: Optional[FuncInfo] = f
            while g is not None:  # nested function definitions of the enclosing scopes
                nf = self.P.nested(g, e.id)
                if nf is not None:
                    return ("func", nf.qualname)
                g = g.parent
            return self.name_type(m, e.id)
        if isinstance(e, ast.Await):
            return self.expr(f, e.value, env)
        if isinstance(e, ast.Attribute):
            bt = self.expr(f, e.value, env)
            return self.attr(bt, e.attr)
        if isinstance(e, ast.Subscript):
            bt = self.expr(f, e.value, env)
            if bt[0] == "list":
                if isinstance(e.slice, ast.Slice):
                    return bt
                return bt[1]
            if bt[0] == "dict":
                return bt[2]
            if bt[0] == "tuple" and isinstance(e.slice, ast.Constant) and isinstance(e.slice.value, int) \
                    and -len(bt[1]) <= e.slice.value < len(bt[1]):
                return bt[1][e.slice.value]
            if bt[0] == "cls":
                c = self.P.classes.get(bt[1])
                gi = self.P.find_method(c, "__getitem__") if c else None
                if gi is not None:
                    t = self.ann(gi.module, gi.node.returns)
                    return bt if t == ("self",) else t
            if bt[0] == "bm" and bt[1] == "in_degree":
                return ("int",)
            return ANY
        if isinstance(e, ast.Call):
            return self.call(f, e, env)
        if isinstance(e, ast.ListComp):
            env2 = self._comp_env(f, e.generators, env)
            return ("list", self.expr(f, e.elt, env2))
        if isinstance(e, ast.List):
            ts = {self.expr(f, x, env) for x in e.elts}
            return ("list", ts.pop() if len(ts) == 1 else ANY)
        if isinstance(e, ast.SetComp):
            env2 = self._comp_env(f, e.generators, env)
            return ("set", self.expr(f, e.elt, env2))
        if isinstance(e, ast.Set):
            ts = {self.expr(f, x, env) for x in e.elts}
            return ("set", ts.pop() if len(ts) == 1 else ANY)
        if isinstance(e, ast.GeneratorExp):
            env2 = self._comp_env(f, e.generators, env)
            return ("list", self.expr(f, e.elt, env2))
        if isinstance(e, ast.DictComp):
            env2 = self._comp_env(f, e.generators, env)
            return ("dict", self.expr(f, e.key, env2), self.expr(f, e.value, env2))
        if isinstance(e, ast.Dict):
            ks = {self.expr(f, x, env) for x in e.keys if x is not None}
            vs = {self.expr(f, x, env) for x in e.values}
            return ("dict", ks.pop() if len(ks) == 1 else ANY, vs.pop() if len(vs) == 1 else ANY)
        if isinstance(e, ast.Tuple):
            return ("tuple", tuple(self.expr(f, x, env) for x in e.elts))
        if isinstance(e, ast.Constant):
            if e.value is None:
                return NONE
            if e.value is Ellipsis:
                return ANY
            return (type(e.value).__name__,)
        if isinstance(e, ast.JoinedStr):
            return ("str",)
        if isinstance(e, ast.IfExp):
            a, b = self.expr(f, e.body, env), self.expr(f, e.orelse, env)
            return a if a not in (ANY, NONE) else b
        if isinstance(e, ast.BoolOp):
            return self.expr(f, e.values[-1], env)
        if isinstance(e, (ast.Compare,)):
            return ("bool",)
        if isinstance(e, ast.UnaryOp):
            return ("bool",) if isinstance(e.op, ast.Not) else self.expr(f, e.operand, env)
        if isinstance(e, ast.BinOp):
            a = self.expr(f, e.left, env)
            b = self.expr(f, e.right, env)
            if a[0] in ("list", "set", "str", "int", "float"):
                return a
            if b[0] in ("list", "set", "str", "int", "float"):
                return b
            return ANY
        if isinstance(e, ast.Starred):
            return self.expr(f, e.value, env)
        if isinstance(e, ast.NamedExpr):
            return self.expr(f, e.value, env)
        if isinstance(e, ast.Lambda):
            return ("lambda",)
        return ANY

    def _comp_env(self, f, generators, env) -> dict:
        env2 = dict(env)
        for g in generators:
            self.bind(g.target, self.elem(self.expr(f, g.iter, env2)), env2)
        return env2

    def comp_env(self, f: FuncInfo, comp_node: ast.AST, env: Optional[dict] = None) -> dict:
        """Environment inside a comprehension / generator node."""
        env = self.env(f) if env is None else env
        return self._comp_env(f, comp_node.generators, env)  # type: ignore[attr-defined]

    def name_type(self, m: ModInfo, name: str) -> tuple:
        q = self.P.resolve_name(m, name)
        if q is None:
            return ("ext", name)
        if q in self.P.classes:
            return ("type", q)
        if q in self.P.funcs:
            return ("func", q)
        if q in self.P.modules:
            return ("module", q)
        if "." in q and q.rsplit(".", 1)[0] in self.P.modules:
            return self.global_type(q)
        return ("ext", q)

    def global_type(self, q: str) -> tuple:
        mod, name = q.rsplit(".", 1)
        mi = self.P.modules[mod]
        st = mi.globals_.get(name)
        if isinstance(st, ast.AnnAssign):
            return self.ann(mi, st.annotation)
        if isinstance(st, ast.Assign):
            v = st.value
            if isinstance(v, ast.Call):
                fn = ast.unparse(v.func)
                r = self.P.resolve_name(mi, fn)
                if r in self.P.classes:
                    return cls(r)
                return ("extinst", r or fn)
            if isinstance(v, ast.Constant):
                return (type(v.value).__name__,) if v.value is not None else NONE
            if isinstance(v, ast.Tuple):
                return ("tuple", tuple(ANY for _ in v.elts))
        return ANY

    def attr(self, bt: tuple, name: str) -> tuple:
        if bt[0] == "module":
            q = self.P.canon(f"{bt[1]}.{name}")
            if q in self.P.classes:
                return ("type", q)
            if q in self.P.funcs:
                return ("func", q)
            if q in self.P.modules:
                return ("module", q)
            if q.rsplit(".", 1)[0] in self.P.modules:
                return self.global_type(q)
            return ("ext", q)
        if bt[0] == "ext":
            return ("ext", f"{bt[1]}.{name}")
        if bt[0] == "extinst":
            return ("extattr", bt[1], name)
        if bt[0] == "union":
            ts = [self.attr(t, name) for t in bt[1]]
            ts = [t for t in ts if t != ANY and t[0] != "attr?"]
            if ts and all(t == ts[0] for t in ts):
                return ts[0]
            return ts[0] if ts else ANY
        if bt[0] in ("cls", "type"):
            c = self.P.classes.get(bt[1])
            if c is None:
                return ("ext", f"{bt[1]}.{name}")
            ff = self.P.find_field(c, name)
            if ff:
                a, owner = ff
                return self.ann(owner.module, a)
            mm = self.P.find_method(c, name)
            if mm:
                if any(d == "property" for d in mm.decorators()):
                    t = self.ann(mm.module, mm.node.returns)  # type: ignore[attr-defined]
                    return bt if t == ("self",) else t
                return ("method", mm.qualname, bt)
            for ci in self.P.mro(c):
                for mn in ("__init__", "__post_init__"):
                    if mn in ci.methods:
                        for n in ast.walk(ci.methods[mn].node):
                            if isinstance(n, ast.AnnAssign) and isinstance(n.target, ast.Attribute) \
                                    and n.target.attr == name:
                                return self.ann(ci.module, n.annotation)
                        for n in ast.walk(ci.methods[mn].node):
                            if isinstance(n, ast.Assign) and any(
                                isinstance(t, ast.Attribute) and t.attr == name for t in n.targets
                            ):
                                return self.expr(ci.methods[mn], n.value)
            if self._is_graph(bt[1]):
                return ("bm", name, bt)
            return ("attr?", bt[1], name)
        if bt[0] in ("dict", "list", "set", "tuple", "str"):
            if bt[0] == "dict" and len(bt) == 4:
                c = self.P.classes.get(bt[3])
                mm = self.P.find_method(c, name) if c else None
                if mm:
                    return ("method", mm.qualname, bt)
                if c:
                    for ci in self.P.mro(c):
                        if "__init__" in ci.methods:
                            for n in ast.walk(ci.methods["__init__"].node):
                                if isinstance(n, ast.AnnAssign) and isinstance(n.target, ast.Attribute) \
                                        and n.target.attr == name:
                                    return self.ann(ci.module, n.annotation)
            return ("bm", name, bt)
        return ANY

    def call(self, f: FuncInfo, e: ast.Call, env: dict) -> tuple:
        ft = self.expr(f, e.func, env)
        if ft[0] == "type":
            q = ft[1]
            if q in self.dict_classes:
                kv = self._pairs_type(f, e, env)
                return ("dict", kv[0], kv[1], q)
            return cls(q)
        if ft[0] == "func":
            fi = self.P.funcs[ft[1]]
            return self.ann(fi.module, fi.node.returns)  # type: ignore[attr-defined]
        if ft[0] == "method":
            fi = self.P.funcs.get(ft[1])
            if fi is None:
                return ANY
            t = self.ann(fi.module, fi.node.returns)  # type: ignore[attr-defined]
            return ft[2] if t == ("self",) else t
        if ft[0] == "bm":
            nm, bt = ft[1], ft[2]
            if bt[0] == "dict":
                if nm == "values":
                    return ("list", bt[2])
                if nm == "keys":
                    return ("list", bt[1])
                if nm == "items":
                    return ("items", bt[1], bt[2])
                if nm in ("get", "pop", "setdefault"):
                    return bt[2]
                if nm == "copy":
                    return bt
            if bt[0] in ("list", "set"):
                if nm in ("copy", "union", "difference", "intersection", "symmetric_difference"):
                    return bt
                if nm == "pop":
                    return bt[1]
            if bt[0] == "str":
                if nm in ("split", "rsplit", "splitlines"):
                    return ("list", ("str",))
                if nm in ("join", "format", "strip", "replace", "lower", "upper"):
                    return ("str",)
                if nm in ("startswith", "endswith"):
                    return ("bool",)
            if bt[0] == "cls":  # graph builtin
                if nm in ("successors", "predecessors", "nodes", "neighbors"):
                    return ("list", ("str",))
                if nm in ("copy", "subgraph", "reverse", "to_directed"):
                    return bt
            return ANY
        if ft[0] == "type?":
            return ANY
        if ft[0] == "ext":
            nm = ft[1] or ""
            last = nm.split(".")[-1]
            a0 = self.expr(f, e.args[0], env) if e.args else ANY
            if last in ("copy", "deepcopy") and e.args:
                return a0
            if last == "enumerate":
                return ("enumerate", self.elem(a0))
            if last == "zip":
                return ("zip", tuple(self.elem(self.expr(f, a, env)) for a in e.args))
            if last in ("list", "sorted", "reversed", "iter", "tuple"):
                return ("list", self.elem(a0)) if a0[0] in ("list", "set", "dict", "items", "enumerate", "zip", "cls", "tuple") \
                    else ("list", ANY)
            if last in ("set", "frozenset"):
                return ("set", self.elem(a0)) if e.args else ("set", ANY)
            if last == "dict":
                if e.args and a0[0] == "dict":
                    return a0
                return ("dict", ANY, ANY)
            if last in ("max", "min", "next"):
                return self.elem(a0) if a0[0] in ("list", "set", "dict") else ANY
            if last in ("len", "sum", "id", "hash", "int"):
                return ("int",)
            if last in ("isinstance", "issubclass", "bool", "any", "all", "callable", "hasattr"):
                return ("bool",)
            if last in ("str", "repr", "hex"):
                return ("str",)
            if last == "type" and len(e.args) == 1:
                if a0[0] == "cls":
                    return ("type", a0[1])
                return ("type?",)
            if last == "chain":
                ts = [self.elem(self.expr(f, a.value if isinstance(a, ast.Starred) else a, env)) for a in e.args]
                ts = [self.elem(t) if isinstance(a, ast.Starred) else t for a, t in zip(e.args, ts)]
                return ("list", ts[0] if ts and all(t == ts[0] for t in ts) else ANY)
            if last in ("ancestors", "descendants"):
                return ("set", ("str",))
            if last in ("topological_sort",):
                return ("list", ("str",))
            if last in ("induced_subgraph", "subgraph_view", "dfs_tree"):
                g = next((k.value for k in e.keywords if k.arg == "G"), e.args[0] if e.args else None)
                return self.expr(f, g, env) if g is not None else ANY
            return ("extinst", nm)
        if ft[0] == "extattr":
            # method on an external instance
            if ft[2] in ("submit",):
                return ("extinst", "concurrent.futures.Future")
            return ("extinst", f"{ft[1]}.{ft[2]}()")
        return ANY

    def _pairs_type(self, f, e: ast.Call, env) -> Tuple[tuple, tuple]:
        if e.args:
            a0 = self.expr(f, e.args[0], env)
            if a0[0] == "dict":
                return a0[1], a0[2]
            et = self.elem(a0)
            if et[0] == "tuple" and len(et[1]) == 2:
                return et[1][0], et[1][1]
        return ANY, ANY

    # ------------------------------------------------------------------ helpers for rules
    def is_instance(self, t: tuple, q: str, maybe: bool = True) -> bool:
        """t denotes an instance of package class q (or subclass); unions count when maybe."""
        if t[0] == "cls":
            return t[1] == q or self.P.is_subclass(t[1], q)
        if t[0] == "union" and maybe:
            return any(self.is_instance(x, q) for x in t[1])
        return False

    def resolve_callee(self, f: FuncInfo, call: ast.Call, env: Optional[dict] = None) -> Optional[str]:
        """Qualified name of the callee: a package function/method qualname, a class qualname (constructor),
        or an external dotted path prefixed with 'ext:'."""
        ft = self.expr(f, call.func, env)
        if ft[0] == "func":
            return ft[1]
        if ft[0] == "method":
            return ft[1]
        if ft[0] == "type":
            return ft[1]
        if ft[0] == "ext":
            return "ext:" + str(ft[1])
        if ft[0] == "extattr":
            return f"ext:{ft[1]}.{ft[2]}"
        if ft[0] == "bm":
            return f"bm:{ft[2][0]}.{ft[1]}"
        return None


def show(t: tuple) -> str:
    if t[0] == "cls":
        return t[1].split(".")[-1]
    if t[0] in ("list", "set"):
        return f"{t[0]}[{show(t[1])}]"
    if t[0] == "dict":
        return f"dict[{show(t[1])},{show(t[2])}]" + (f"<{t[3].split('.')[-1]}>" if len(t) == 4 else "")
    if t[0] == "tuple":
        return "tuple[" + ",".join(show(x) for x in t[1]) + "]"
    if t[0] == "union":
        return "|".join(show(x) for x in t[1])
    return ":".join(str(x) for x in t)
