"""Positive controls: a tiny virtual module analysed together with the package on every run.

It is never written to disk and never part of /repo.  Rules whose expected number of violations on a healthy tree
is zero must match their control construct here, otherwise they report UNDECIDED (a rule that has gone blind must
not pass vacuously).  Findings located in this module are never part of a verdict."""

CONTROL_REL = "tawazi/_twzsa_control.py"

CONTROL_SRC = '''
from typing import Any, Dict, List
from tawazi.node import ExecNode, UsageExecNode
from tawazi.consts import Identifier


def ctl_deref(uxn: UsageExecNode, results: Dict[Identifier, Any]) -> Any:
    return results[uxn.id]


def ctl_key(uxn: UsageExecNode, prefix: str) -> UsageExecNode:
    return UsageExecNode(prefix + uxn.id)


def result(xn: ExecNode) -> int:
    return xn.priority


def ctl_swallow(x: int) -> int:
    try:
        return 1 // x
    except Exception:
        return 0


def ctl_genreuse(xs: List[int], ys: List[int]) -> int:
    seen = (x for x in xs)
    n = 0
    for y in ys:
        if y in seen:
            n += 1
    return n


def ctl_recurse(graph: Any, n: Identifier, acc: List[Identifier]) -> None:
    for p in graph.predecessors(n):
        acc.append(p)
        ctl_recurse(graph, p, acc)


_ctl_state: List[int] = []


def ctl_global_write(x: int) -> None:
    _ctl_state.append(x)
'''
