#!/venv/bin/python
"""Regenerate /verif/MANIFEST.json from twzsa.props (one entry per claimed property)."""
import json
import os
import sys

HERE = os.path.dirname(os.path.dirname(os.path.abspath(__file__)))
sys.path.insert(0, HERE)
from twzsa.props import PROPS  # noqa: E402

# properties whose check is armed (every core rule implemented and exact on today's tree)
CLAIMED = sys.argv[1].split(",") if len(sys.argv) > 1 else sorted(PROPS)
NOT_APPLICABLE = {}

TECH = {
    "SCH": "path-sensitive event rules over all enumerated loop paths of the scheduler (CFG + branch facts)",
    "REF": "type-resolved per-site/per-field reference rules; id-taint abstract interpretation of the splice",
    "GT": "typestate dataflow over graph values (tables carried), shape rules on selection/priority code",
    "OWN": "ownership/effect analysis over the call graph from the run entry points; who-may-write",
    "LCK": "lockset + thread-exclusive predicate rule on build state",
    "SIB": "sibling effect-summary comparison (sync vs async twins)",
    "VAL": "must-raise / condition-strength rules on validators",
    "ERR": "error-discipline rules (wrap, must-check, no-swallow)",
    "CACHE": "source-to-sink flow of the unpickled mapping; writer/reader shape agreement",
}

checks = []
for pid in sorted(PROPS):
    if pid not in CLAIMED:
        continue
    p = PROPS[pid]
    fams = []
    for r in p["core"] + p["aux"]:
        f = r.split("-")[0]
        if f not in fams:
            fams.append(f)
    checks.append({
        "property_id": pid,
        "quick_cmd": f"/venv/bin/python -m twzsa check {pid} --tier quick",
        "thorough_cmd": f"/venv/bin/python -m twzsa check {pid} --tier thorough",
        "evidence_file": f"evidence/{pid}.json",
        "replay_cmd_template": "/venv/bin/python -m twzsa explain {path}",
        "engine": "twzsa",
        "level_claimed": {
            "category": "other",
            "text": "Static analysis of /repo's current source (stdlib ast; nothing of tawazi is imported or run): structural "
                    "necessary conditions of the property, re-derived on every run and decided for all paths / sites / fields of "
                    "the package rather than for sampled executions. Not the behaviour itself. " + p["explanation"],
            "design_ref": f"DESIGN.md section 5 ({pid}), rules in section 4",
        },
        "level_note": "Decides the listed clauses only; NOT decided: " + p["not_decided"] + ". Trusted base: "
                      + "; ".join(p.get("trusted_base", [])) + ". Core rules: " + ", ".join(p["core"]) + "; auxiliary: "
                      + ", ".join(p["aux"]) + " (an undecided auxiliary rule is reported and not counted as discharged).",
        "technique": "static analysis: " + "; ".join(TECH[f] for f in fams if f in TECH),
    })

manifest = {
    "version": 1,
    "setup_cmd": "/venv/bin/python -m compileall -q twzsa && /venv/bin/python -m twzsa list > /dev/null",
    "hooks": {
        "guard": "TAWAZI_VERIF",
        "enable": "no hooks: the checks read /repo's source and never run it; the guard name is reserved and unused",
        "baseline_off_cmd": "cd /repo && /venv/bin/python -m pytest -ra -q -p no:cacheprovider --timeout=900 --continue-on-collection-errors",
        "source_commits": [],
        "add_only": True,
    },
    "engines": [{
        "name": "twzsa",
        "path": "twzsa/",
        "serves_properties": [c["property_id"] for c in checks],
        "kind_free_text": "purpose-built static analyser for tawazi: loader/resolver, annotation-driven typer, statement CFG with "
                          "loop-path enumeration and branch facts, scheduler event model, id-taint interpreter of the nested-DAG "
                          "splice, table typestate over graph values, ownership/lockset/sibling rules; stdlib ast only",
    }],
    "checks": checks,
    "notes": "Every check exits 0 (held on everything explored; KNOWN-FINDING lines for recorded defects), 1 with a VIOLATION line, "
             "or 2 with ANALYSIS-ERROR when an anchor vanished or an idiom is not modelled (never a silent pass). Known findings: "
             "known_findings.json. Seeded breakages and which check catches them: seeded/ and DESIGN.md.",
    "not_applicable": [{"property_id": k, "reason": v} for k, v in sorted(NOT_APPLICABLE.items())]
    + [{"property_id": k, "reason": "check not armed yet in this commit (core rules still being built); will be claimed once exact"}
       for k in sorted(PROPS) if k not in CLAIMED and k not in NOT_APPLICABLE],
}
with open(os.path.join(HERE, "MANIFEST.json"), "w") as fh:
    json.dump(manifest, fh, indent=1)
print("claimed:", [c["property_id"] for c in checks])
