#!/venv/bin/python
"""Apply each seeded change to /repo, run every check (quick), undo; print and store the detection matrix."""
import json, os, subprocess, sys, glob, time
from concurrent.futures import ThreadPoolExecutor
VERIF = os.path.dirname(os.path.dirname(os.path.abspath(__file__)))
seeds = sorted(glob.glob(os.path.join(VERIF, "seeded", "*", "patch.diff")))
only = sys.argv[1:] 
res = {}
assert subprocess.run(["git", "-C", "/repo", "status", "--porcelain", "--untracked-files=no"], capture_output=True, text=True).stdout.strip() == "", "/repo not clean"
for p in seeds:
    sid = os.path.basename(os.path.dirname(p))
    if only and sid not in only:
        continue
    meta = json.load(open(os.path.join(os.path.dirname(p), "meta.json")))
    if meta.get("obsolete_since"):
        print(f"{sid}: obsolete since {meta['obsolete_since'][:7]} (skipped)")
        continue
    subprocess.run(["git", "-C", "/repo", "apply", p], check=True)
    try:
        hits = {}

        def one(pid):
            return pid, subprocess.run(["/venv/bin/python", "-m", "twzsa", "check", pid], cwd=VERIF, capture_output=True, text=True,
                                       env=dict(os.environ, TWZSA_NOEVIDENCE="1"))
        # the twenty checks read the same patched /repo: they run side by side, the patch is undone when all have finished
        with ThreadPoolExecutor(max_workers=14) as ex:
            outs = list(ex.map(one, [f"C{i:02d}" for i in range(1, 21)]))
        for pid, out in outs:
            if out.returncode != 0:
                rules = sorted({l.strip()[3:].split(" @ ")[0] for l in out.stdout.splitlines() if l.strip().startswith("!! ")})
                if out.returncode == 2:
                    rules = ["ANALYSIS-ERROR:" + ",".join(sorted({l.split("rule=")[1].split()[0] for l in out.stdout.splitlines() if l.startswith("ANALYSIS-ERROR") and "rule=" in l}))]
                hits[pid] = {"exit": out.returncode, "rules": rules}
    finally:
        subprocess.run(["git", "-C", "/repo", "checkout", "--", "."], check=True)
    own = meta["property"]
    caught = [k for k, v in hits.items() if v["exit"] == 1]
    res[sid] = {"property": own, "caught_by_own_check": own in caught, "violations": {k: v["rules"] for k, v in hits.items() if v["exit"] == 1},
                "analysis_errors": {k: v["rules"] for k, v in hits.items() if v["exit"] == 2}}
    print(f"{sid} ({own}): own={'YES' if own in caught else 'no '} viol={ {k: v['rules'] for k, v in hits.items() if v['exit']==1} } err={ {k: v['rules'] for k, v in hits.items() if v['exit']==2} }", flush=True)
mp = os.path.join(VERIF, "seeded", "MATRIX.json")
allres = json.load(open(mp)) if os.path.exists(mp) and only else {}
allres.update(res)
json.dump(dict(sorted(allres.items())), open(mp, "w"), indent=1)
for sid, v in res.items():  # keep each seed's meta in step with the matrix
    mf = os.path.join(VERIF, "seeded", sid, "meta.json")
    d = json.load(open(mf))
    d["caught_by"] = sorted(v["violations"])
    d["caught_by_rules"] = v["violations"]
    json.dump(d, open(mf, "w"), indent=1)
n = len(res); own = sum(1 for v in res.values() if v["caught_by_own_check"]); anyc = sum(1 for v in res.values() if v["violations"])
print(f"{n} seeds: {own} caught by the check of the property they target, {anyc} caught by some check")
