#!/venv/bin/python
"""Development tool: detection matrix of a set of seeded changes against a given checker tree, on scratch copies, in parallel.

    tools/blind_matrix.py --seeds <dir with <id>/patch.diff + meta.json> [--checker <verif tree>] [--out <json>] [--jobs N]

Unlike tools/seed_matrix.py (which applies every change to /repo itself, one after the other, and is the record kept in
seeded/MATRIX.json) this never touches /repo: each change is applied to a temporary copy of /repo's committed package
(outside /repo and /verif, removed at once) and the checks read that copy (--root). It is used to measure a frozen
checker commit (a git worktree of /verif) against changes it has never seen.
"""
import argparse, glob, json, os, shutil, subprocess, sys, tempfile
from concurrent.futures import ThreadPoolExecutor

VERIF = os.path.dirname(os.path.dirname(os.path.abspath(__file__)))


def run_seed(args):
    sid, pdir, checker = args
    meta = json.load(open(os.path.join(pdir, "meta.json")))
    tmp = tempfile.mkdtemp(prefix="twzsa_bm_")
    try:
        ar = subprocess.run("git -C /repo archive HEAD tawazi | tar -x -C " + tmp, shell=True, capture_output=True, text=True)
        if ar.returncode != 0:
            return sid, {"error": "archive failed"}
        ap = subprocess.run(["patch", "-p1", "-s", "-f", "--no-backup-if-mismatch", "-i", os.path.join(pdir, "patch.diff")], cwd=tmp,
                            capture_output=True, text=True)
        if ap.returncode != 0:
            return sid, {"error": "patch does not apply: " + ap.stdout[-200:]}
        hits = {}
        for i in range(1, 21):
            pid = f"C{i:02d}"
            out = subprocess.run(["/venv/bin/python", "-m", "twzsa", "check", pid, "--root", tmp], cwd=checker, capture_output=True, text=True,
                                 env=dict(os.environ, TWZSA_NOEVIDENCE="1"))
            if out.returncode != 0:
                rules = sorted({l.strip()[3:].split(" @ ")[0] for l in out.stdout.splitlines() if l.strip().startswith("!! ")})
                hits[pid] = {"exit": out.returncode, "rules": rules}
        own = meta["property"]
        caught = [k for k, v in hits.items() if v["exit"] == 1]
        return sid, {"property": own, "caught_by_own_check": own in caught,
                     "violations": {k: v["rules"] for k, v in hits.items() if v["exit"] == 1},
                     "analysis_errors": sorted(k for k, v in hits.items() if v["exit"] == 2)}
    finally:
        shutil.rmtree(tmp, ignore_errors=True)


def main():
    ap = argparse.ArgumentParser()
    ap.add_argument("--seeds", required=True)
    ap.add_argument("--checker", default=VERIF)
    ap.add_argument("--out", default=None)
    ap.add_argument("--jobs", type=int, default=8)
    ap.add_argument("ids", nargs="*")
    a = ap.parse_args()
    jobs = []
    for p in sorted(glob.glob(os.path.join(a.seeds, "*", "patch.diff"))):
        sid = os.path.basename(os.path.dirname(p))
        if a.ids and sid not in a.ids:
            continue
        if json.load(open(os.path.join(os.path.dirname(p), "meta.json"))).get("obsolete_since"):
            continue
        jobs.append((sid, os.path.dirname(p), a.checker))
    res = {}
    with ThreadPoolExecutor(max_workers=a.jobs) as ex:
        for sid, r in ex.map(run_seed, jobs):
            res[sid] = r
            if "error" in r:
                print(f"{sid}: {r['error']}", flush=True)
            else:
                print(f"{sid} ({r['property']}): own={'YES' if r['caught_by_own_check'] else 'no '} viol={r['violations']} err={r['analysis_errors']}", flush=True)
    ok = [r for r in res.values() if "error" not in r]
    print(f"{len(ok)} seeds: {sum(r['caught_by_own_check'] for r in ok)} caught by the check of the property they target, "
          f"{sum(bool(r['violations']) for r in ok)} caught by some check")
    if a.out:
        json.dump(dict(sorted(res.items())), open(a.out, "w"), indent=1)


if __name__ == "__main__":
    main()
