#!/venv/bin/python
"""Development tool: import the deliverables of a seeding round into seeded/<id>/.

    tools/import_seeds.py --src /tmp/seed6/out --round 6 --suffix k l

<src>/<Cxx>/{a,b}/{patch.diff,demo.py,meta.json} becomes seeded/<Cxx><k|l>/ with a normalised meta.json (id, property, round, origin,
the sub-agent's own report kept under sub_agent_report). Nothing is verified here: run tools/verify_seed.sh on each afterwards and
record the outcome with --record <id> "<result line>".
"""
import argparse
import json
import os
import shutil
import sys

VERIF = os.path.dirname(os.path.dirname(os.path.abspath(__file__)))


def main() -> int:
    ap = argparse.ArgumentParser()
    ap.add_argument("--src")
    ap.add_argument("--round", type=int)
    ap.add_argument("--suffix", nargs=2, default=["k", "l"])
    ap.add_argument("--record", nargs=2, metavar=("ID", "RESULT"))
    a = ap.parse_args()
    if a.record:
        p = os.path.join(VERIF, "seeded", a.record[0], "meta.json")
        m = json.load(open(p))
        m["verified_by_me"] = {
            "what_i_ran": "tools/verify_seed.sh: fresh worktree of /repo HEAD; demo.py on the clean tree (expect exit 0); git apply patch.diff; "
                          "demo.py (expect non-zero); full suite with the patch (pytest -n 3 --no-cov); worktree removed",
            "result": a.record[1]}
        json.dump(m, open(p, "w"), indent=1)
        return 0
    n = 0
    for prop in sorted(os.listdir(a.src)):
        for sub, suf in zip(("a", "b"), a.suffix):
            d = os.path.join(a.src, prop, sub)
            if not os.path.isfile(os.path.join(d, "patch.diff")) or not os.path.isfile(os.path.join(d, "demo.py")):
                print(f"{prop}/{sub}: incomplete, skipped")
                continue
            sid = f"{prop}{suf}"
            out = os.path.join(VERIF, "seeded", sid)
            os.makedirs(out, exist_ok=True)
            shutil.copy(os.path.join(d, "patch.diff"), out)
            shutil.copy(os.path.join(d, "demo.py"), out)
            try:
                rep = json.load(open(os.path.join(d, "meta.json")))
            except Exception as e:  # noqa: BLE001
                rep = {"unreadable": str(e)}
            meta = {"id": sid, "property": prop, "round": a.round,
                    "summary": rep.get("summary", ""), "needs_to_manifest": rep.get("needs_to_manifest", ""),
                    "files": rep.get("files", []),
                    "origin": f"round {a.round}: written by an independent sub-agent given only the property text, a scratch worktree of /repo and "
                              "the list of kinds of change already taken (nothing from /verif)",
                    "sub_agent_report": {k: rep.get(k) for k in ("suite_result", "demo_clean", "demo_mutated")}}
            json.dump(meta, open(os.path.join(out, "meta.json"), "w"), indent=1)
            n += 1
    print(f"{n} seeds imported")
    return 0


if __name__ == "__main__":
    sys.exit(main())
