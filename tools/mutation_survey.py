#!/venv/bin/python
"""Systematic blind-spot survey (development tool, not a check).

1. enumerate statement-level AST mutants of every function of the package (delete a statement, negate an if-test, shift a
   comparison, swap and/or, drop a `not`);
2. analyse each in memory with all 20 quick checks: 'noticed' if any check exits non-zero;
3. for the unnoticed ones, run the repository's test suite on a scratch copy (outside /repo and /verif, removed at once):
   'survivor' if the suite still passes.
Survivors are the candidates to triage by hand: either behaviour-irrelevant (logging, messages, dead code), irrelevant to the
20 properties, or a genuine blind spot of the checks.

usage: mutation_survey.py [--jobs 16] [--suite-jobs 5] [--only <module substring>] [--limit N]
"""
import argparse
import ast
import copy
import json
import os
import shutil
import subprocess
import sys
import tempfile
import time
from concurrent.futures import ProcessPoolExecutor, ThreadPoolExecutor

VERIF = os.path.dirname(os.path.dirname(os.path.abspath(__file__)))
sys.path.insert(0, VERIF)
REPO = "/repo"

SKIP_FUNCS = {"__repr__", "draw", "ordinal", "_validate_loguru_level", "__hash__", "get_call_location"}
EXTRA = False
ATTR_SWAP = {"args": "kwargs", "kwargs": "args", "successors": "predecessors", "predecessors": "successors", "setup": "debug", "debug": "setup",
             "in_degree": "out_degree", "root_nodes": "leaf_nodes", "leaf_nodes": "root_nodes", "input_uxns": "return_uxns",
             "target_nodes": "exclude_nodes", "exclude_nodes": "root_nodes", "conc_running": "async_running", "issubset": "issuperset",
             "append": "remove", "union": "intersection", "values": "keys"}
CMP_SHIFT = {ast.Lt: ast.LtE, ast.LtE: ast.Lt, ast.Gt: ast.GtE, ast.GtE: ast.Gt, ast.Eq: ast.NotEq, ast.NotEq: ast.Eq,
             ast.Is: ast.IsNot, ast.IsNot: ast.Is, ast.In: ast.NotIn, ast.NotIn: ast.In}


def is_noise(stmt: ast.stmt) -> bool:
    if isinstance(stmt, ast.Expr):
        v = stmt.value
        if isinstance(v, ast.Constant):
            return True
        if isinstance(v, ast.Call):
            d = ast.unparse(v.func)
            if d.startswith("logger.") or d.startswith("warnings."):
                return True
    return False


def enumerate_mutants(rel: str, src: str):
    tree = ast.parse(src)
    out = []

    def add(kind, fn, node, new_tree):
        try:
            text = ast.unparse(new_tree) + "\n"
            ast.parse(text)
        except Exception:
            return
        out.append({"file": rel, "func": fn, "kind": kind, "line": getattr(node, "lineno", 0),
                    "what": ast.unparse(node).split("\n")[0][:100], "source": text})

    funcs = []

    def collect(node, prefix):
        for c in ast.iter_child_nodes(node):
            if isinstance(c, (ast.FunctionDef, ast.AsyncFunctionDef)):
                if c.name not in SKIP_FUNCS and not any("overload" in ast.unparse(d) for d in c.decorator_list):
                    funcs.append((prefix + c.name, c))
                collect(c, prefix + c.name + ".")
            elif isinstance(c, ast.ClassDef):
                collect(c, prefix + c.name + ".")
            elif not isinstance(c, ast.expr):
                collect(c, prefix)

    collect(tree, "")
    # index every node -> path so that we can rebuild on a deep copy
    for fname, fnode in funcs:
        # statements (own, not in nested defs)
        own = []
        st = [(fnode, "body", i) for i in range(len(fnode.body))]
        seen = set()

        def walk_blocks(owner):
            for field in ("body", "orelse", "finalbody"):
                blk = getattr(owner, field, None)
                if isinstance(blk, list):
                    for i, s in enumerate(blk):
                        if isinstance(s, ast.stmt):
                            own.append((owner, field, i, s))
                            if not isinstance(s, (ast.FunctionDef, ast.AsyncFunctionDef, ast.ClassDef)):
                                walk_blocks(s)
            if isinstance(owner, ast.Try):
                for h in owner.handlers:
                    walk_blocks(h)

        walk_blocks(fnode)
        for owner, field, i, s in own:
            if is_noise(s) or isinstance(s, (ast.FunctionDef, ast.AsyncFunctionDef, ast.ClassDef, ast.Import, ast.ImportFrom,
                                             ast.Global, ast.Nonlocal, ast.Pass)):
                continue
            blk = getattr(owner, field)
            # --- delete statement (replace by pass when the block would become empty)
            if isinstance(s, (ast.Expr, ast.Assign, ast.AugAssign, ast.AnnAssign, ast.Continue, ast.Raise, ast.If, ast.For, ast.Delete)) \
                    and not (isinstance(s, ast.AnnAssign) and s.value is None):
                saved = blk[i]
                blk[i] = ast.Pass()
                add("delete", fname, saved, tree)
                blk[i] = saved
            # --- negate if / while test
            if isinstance(s, (ast.If, ast.While)):
                saved = s.test
                s.test = ast.UnaryOp(op=ast.Not(), operand=saved)
                add("negate-test", fname, saved, tree)
                s.test = saved
        # expression-level: comparisons, boolops (own nodes only)
        stack = list(fnode.body)
        exprs = []
        while stack:
            n = stack.pop()
            if isinstance(n, (ast.FunctionDef, ast.AsyncFunctionDef, ast.ClassDef)):
                continue
            exprs.append(n)
            stack.extend(ast.iter_child_nodes(n))
        for n in exprs:
            if isinstance(n, ast.Compare) and len(n.ops) == 1 and type(n.ops[0]) in CMP_SHIFT:
                saved = n.ops[0]
                n.ops[0] = CMP_SHIFT[type(saved)]()
                add("cmp-shift", fname, n, tree)
                n.ops[0] = saved
            if isinstance(n, ast.BoolOp):
                saved = n.op
                n.op = ast.Or() if isinstance(saved, ast.And) else ast.And()
                add("boolop-swap", fname, n, tree)
                n.op = saved
            if EXTRA:
                # constants: ints +-1, booleans flipped
                if isinstance(n, ast.Constant) and isinstance(n.value, bool):
                    saved = n.value
                    n.value = not saved
                    add("bool-flip", fname, n, tree)
                    n.value = saved
                elif isinstance(n, ast.Constant) and isinstance(n.value, int):
                    saved = n.value
                    n.value = saved + 1
                    add("int+1", fname, n, tree)
                    n.value = saved
                # copies dropped
                if isinstance(n, ast.Call) and ast.unparse(n.func) in ("copy", "deepcopy") and len(n.args) == 1:
                    saved_f, saved_a = n.func, n.args
                    n.func, n.args = ast.Name(id="_twz_identity", ctx=ast.Load()), saved_a
                    # unparse as identity call is not valid without a definition: substitute textually instead
                    n.func, n.args = saved_f, saved_a
                    text = ast.unparse(tree)
                    target = ast.unparse(n)
                    if text.count(target) == 1:
                        mtext = text.replace(target, ast.unparse(n.args[0])) + "\n"
                        try:
                            ast.parse(mtext)
                            out.append({"file": rel, "func": fname, "kind": "copy-drop", "line": n.lineno, "what": target[:100], "source": mtext})
                        except SyntaxError:
                            pass
                # attribute swaps
                if isinstance(n, ast.Attribute) and n.attr in ATTR_SWAP:
                    saved = n.attr
                    n.attr = ATTR_SWAP[saved]
                    add("attr-swap", fname, n, tree)
                    n.attr = saved
                # keyword argument dropped
                if isinstance(n, ast.Call) and n.keywords and not any(k.arg is None for k in n.keywords):
                    for j in range(len(n.keywords)):
                        saved = list(n.keywords)
                        del n.keywords[j]
                        add("kwarg-drop", fname, n, tree)
                        n.keywords = saved
                # second positional argument dropped (e.g. the key path of a reference)
                if isinstance(n, ast.Call) and len(n.args) == 2 and ast.unparse(n.func).endswith("UsageExecNode"):
                    saved = list(n.args)
                    n.args = saved[:1]
                    add("arg2-drop", fname, n, tree)
                    n.args = saved
                # return value dropped
                if isinstance(n, ast.Return) and n.value is not None and not isinstance(n.value, ast.Constant):
                    saved = n.value
                    n.value = ast.Constant(value=None)
                    add("return-none", fname, n, tree)
                    n.value = saved
    return out


def enumerate_varswaps(rel: str, src: str):
    """Replace one variable read by another variable of the same (known) type that is in scope."""
    from twzsa.ctx import Ctx
    from twzsa.loader import iter_own_nodes

    ctx = _CTX.get("ctx") or _CTX.setdefault("ctx", Ctx(REPO))
    out = []
    mod = next((m for m in ctx.P.modules.values() if m.rel == rel), None)
    if mod is None:
        return out
    tree = ast.parse(src)
    # map (lineno, col) -> node of the fresh tree
    pos = {}
    for n in ast.walk(tree):
        if isinstance(n, ast.Name) and isinstance(n.ctx, ast.Load):
            pos[(n.lineno, n.col_offset, n.id)] = n
    for f in ctx.P.funcs.values():
        if f.module is not mod or f.name in SKIP_FUNCS:
            continue
        env = ctx.T.env(f)
        typed = {k: v for k, v in env.items() if v[0] not in ("any", "none", "ext", "extinst", "bool", "lambda", "type?", "func", "module", "type")}
        for n in iter_own_nodes(f.node):
            if isinstance(n, ast.Name) and isinstance(n.ctx, ast.Load) and n.id in typed:
                alts = sorted(k for k, v in typed.items() if k != n.id and v == typed[n.id] and k not in ("self", "cls"))
                if not alts or n.id in ("self", "cls"):
                    continue
                tn = pos.get((n.lineno, n.col_offset, n.id))
                if tn is None:
                    continue
                saved = tn.id
                tn.id = alts[0]
                try:
                    text = ast.unparse(tree) + "\n"
                    ast.parse(text)
                    out.append({"file": rel, "func": f.short, "kind": "var-swap", "line": n.lineno, "what": f"{saved} -> {alts[0]} in: " +
                                ast.unparse(_stmt_of(tree, tn))[:90], "source": text})
                except Exception:
                    pass
                tn.id = saved
    return out


_CTX = {}


def _stmt_of(tree, node):
    best = None
    for s in ast.walk(tree):
        if isinstance(s, ast.stmt) and any(x is node for x in ast.walk(s)):
            if best is None or (getattr(s, "end_lineno", 0) - s.lineno) <= (getattr(best, "end_lineno", 0) - best.lineno):
                best = s
    return best or node


def analyse(m):
    from twzsa import engine

    hits = {}
    for i in range(1, 21):
        pid = f"C{i:02d}"
        try:
            st, summ = engine.run_property(pid, "quick", REPO, {m["file"]: m["source"]}, quiet=True, write=False)
        except Exception as e:  # noqa: BLE001
            st, summ = 2, {"new": [], "undecided": {"internal": str(e)}}
        if st != 0:
            hits[pid] = {"exit": st, "rules": sorted({k.split(" @ ")[0] for k in summ.get("new", [])}) or sorted(summ.get("undecided", {}))}
    r = dict(m)
    r.pop("source")
    r["noticed"] = hits
    return r


def run_suite(m_and_src):
    m, src = m_and_src
    tmp = tempfile.mkdtemp(prefix="twzsa_mut_")
    try:
        shutil.copytree(os.path.join(REPO, "tawazi"), os.path.join(tmp, "tawazi"), ignore=shutil.ignore_patterns("__pycache__"))
        shutil.copytree(os.path.join(REPO, "tests"), os.path.join(tmp, "tests"), ignore=shutil.ignore_patterns("__pycache__"))
        for f in ("pyproject.toml", "README.md", "example.py"):
            if os.path.exists(os.path.join(REPO, f)):
                shutil.copy(os.path.join(REPO, f), tmp)
        if os.path.isdir(os.path.join(REPO, "documentation")):
            shutil.copytree(os.path.join(REPO, "documentation"), os.path.join(tmp, "documentation"))
        with open(os.path.join(tmp, m["file"]), "w") as fh:
            fh.write(src)
        env = dict(os.environ, PYTHONPATH=tmp)
        p = subprocess.run(["/venv/bin/python", "-m", "pytest", "-q", "-x", "-p", "no:cacheprovider", "--no-cov", "-n", "2",
                            "--timeout=120", "-q"], cwd=tmp, env=env, capture_output=True, text=True, timeout=900)
        ok = p.returncode == 0
        tail = (p.stdout.strip().splitlines() or [""])[-1][:160]
    except subprocess.TimeoutExpired:
        ok, tail = False, "timeout"
    finally:
        shutil.rmtree(tmp, ignore_errors=True)
    r = dict(m)
    r["suite_passes"] = ok
    r["suite_tail"] = tail
    return r


def main():
    ap = argparse.ArgumentParser()
    ap.add_argument("--jobs", type=int, default=16)
    ap.add_argument("--suite-jobs", type=int, default=5)
    ap.add_argument("--only", default=None)
    ap.add_argument("--limit", type=int, default=0)
    ap.add_argument("--out", default="/tmp/mutation_survey.json")
    ap.add_argument("--no-suite", action="store_true")
    ap.add_argument("--repo", default="/repo", help="tree to survey (a frozen copy lets /repo move on meanwhile)")
    ap.add_argument("--varswap", action="store_true", help="variable-swap operator only (a variable replaced by another of the same type)")
    ap.add_argument("--extra", action="store_true", help="second-generation operators only (constants, copies, attribute swaps, dropped arguments, dropped return values)")
    a = ap.parse_args()
    global EXTRA, REPO
    EXTRA = a.extra
    REPO = a.repo
    muts = []
    for dp, dn, fn in os.walk(os.path.join(REPO, "tawazi")):
        for f in sorted(fn):
            if f.endswith(".py"):
                rel = os.path.relpath(os.path.join(dp, f), REPO)
                if a.only and a.only not in rel:
                    continue
                if a.varswap:
                    muts += enumerate_varswaps(rel, open(os.path.join(REPO, rel)).read())
                else:
                    muts += enumerate_mutants(rel, open(os.path.join(REPO, rel)).read())
    if a.extra:
        muts = [m for m in muts if m["kind"] in ("bool-flip", "int+1", "copy-drop", "attr-swap", "kwarg-drop", "arg2-drop", "return-none")]
    if a.limit:
        muts = muts[: a.limit]
    print(f"{len(muts)} mutants", flush=True)
    t0 = time.time()
    srcs = {i: m["source"] for i, m in enumerate(muts)}
    with ProcessPoolExecutor(max_workers=a.jobs) as ex:
        res = list(ex.map(analyse, muts, chunksize=4))
    noticed = [r for r in res if r["noticed"]]
    quiet = [(i, r) for i, r in enumerate(res) if not r["noticed"]]
    print(f"noticed by some check: {len(noticed)}/{len(res)} in {time.time() - t0:.0f}s; unnoticed: {len(quiet)}", flush=True)
    survivors = []
    if not a.no_suite:
        with ThreadPoolExecutor(max_workers=a.suite_jobs) as ex:
            for k, r in enumerate(ex.map(run_suite, [(r, srcs[i]) for i, r in quiet])):
                if r["suite_passes"]:
                    survivors.append(r)
                if (k + 1) % 25 == 0:
                    print(f"  suite runs: {k + 1}/{len(quiet)}, survivors so far {len(survivors)}", flush=True)
    json.dump({"mutants": len(res), "noticed": len(noticed), "unnoticed": len(quiet), "survivors": survivors,
               "noticed_detail": noticed}, open(a.out, "w"), indent=1)
    print(f"survivors (unnoticed by every check AND the suite still passes): {len(survivors)}")
    for r in survivors:
        print(f"  {r['file']}:{r['line']} {r['func']} [{r['kind']}] {r['what']}")


if __name__ == "__main__":
    main()
