#!/venv/bin/python
"""Development tool: attach a rule to the auxiliary list of properties in twzsa/props.py.   tools/attach_rule.py RULE C01 C19 ..."""
import re, sys, os
p = os.path.join(os.path.dirname(os.path.dirname(os.path.abspath(__file__))), "twzsa", "props.py")
s = open(p).read()
rule, pids = sys.argv[1], sys.argv[2:]
for pid in pids:
    m = re.search(r'"%s": dict\(.*?aux=\[(.*?)\]' % pid, s, re.S)
    assert m, pid
    if f'"{rule}"' in m.group(1):
        continue
    s = s[:m.end(1)] + f', "{rule}"' + s[m.end(1):]
open(p, "w").write(s)
