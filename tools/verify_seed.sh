#!/bin/bash
# usage: verify_seed.sh <seed dir with patch.diff demo.py> -> prints one line: <dir> clean=<rc> mutated=<rc> suite=<passed/failed>
d=$1
id=$(echo "$d" | tr '/' '_')
wt=/tmp/sv_$id
git -C /repo worktree add -q --detach "$wt" HEAD 2>/dev/null || { echo "$d worktree-failed"; exit 0; }
cd "$wt"
PYTHONPATH=$wt timeout 120 /venv/bin/python "$d/demo.py" >/tmp/sv_${id}_clean.log 2>&1; c=$?
if git apply "$d/patch.diff" 2>/tmp/sv_${id}_apply.log; then
  PYTHONPATH=$wt timeout 120 /venv/bin/python "$d/demo.py" >/tmp/sv_${id}_mut.log 2>&1; m=$?
  PYTHONPATH=$wt timeout 900 /venv/bin/python -m pytest -q -p no:cacheprovider -n 3 --timeout=900 --no-cov -x 2>&1 | tail -3 > /tmp/sv_${id}_suite.log
  s=$(grep -o "[0-9]* passed\|[0-9]* failed" /tmp/sv_${id}_suite.log | tr '\n' ' ')
else
  m=NA; s="apply-failed"
fi
cd /; git -C /repo worktree remove --force "$wt"
echo "$d clean=$c mutated=$m suite=$s"
