#!/venv/bin/python
"""Regenerate twzsa/known_names.py from /repo's current tree (run after a fix: commit in /repo)."""
import ast, os, json, hashlib, sys
sys.path.insert(0, os.path.dirname(os.path.dirname(os.path.abspath(__file__))))
from twzsa.roles import fingerprint, loose_fingerprint  # noqa: E402
from twzsa.loader import canonical  # noqa: E402

names = set()
classes = set()
hashes = {}
loose = {}
for dp, dn, fns in os.walk("/repo/tawazi"):
    for f in fns:
        if f.endswith(".py"):
            t = canonical(ast.parse(open(os.path.join(dp, f)).read()))
            for n in ast.walk(t):
                if isinstance(n, (ast.FunctionDef, ast.AsyncFunctionDef)):
                    names.add(n.name)
                    hashes.setdefault(fingerprint(n), []).append(n.name)
                    loose.setdefault(loose_fingerprint(n), []).append(n.name)
                elif isinstance(n, ast.ClassDef):
                    classes.add(n.name)
uniq = {h: v[0] for h, v in hashes.items() if len(set(v)) == 1}
uniq_loose = {h: v[0] for h, v in loose.items() if len(set(v)) == 1}
p = os.path.join(os.path.dirname(os.path.dirname(os.path.abspath(__file__))), "twzsa", "known_names.py")
HEAD = '''"""Names (and body fingerprints) of the functions, methods and nested functions of tawazi that existed when the rules were written.

* A function whose name is not in the first table is a helper introduced later: when it is simple, the loader reads its calls as
  if its body had been written in place (twzsa/inline.py), so that extracting a helper does not change a verdict.
* A function with an unknown name whose parameters and body are literally those of a known function that is absent from the tree
  is that function under a new name: it is read under its usual name (twzsa/roles.py).
Regenerate with tools/gen_known_names.py after a fix commit in /repo."""
'''
open(p, "w").write(HEAD + "KNOWN_FUNCTIONS = frozenset(%s)\nKNOWN_CLASSES = frozenset(%s)\nBODY_FINGERPRINT = %s\nLOOSE_FINGERPRINT = %s\n"
                   % (json.dumps(sorted(names)), json.dumps(sorted(classes)), json.dumps(dict(sorted(uniq.items())), indent=0),
                      json.dumps(dict(sorted(uniq_loose.items())), indent=0)))
print(len(names), "names,", len(uniq), "fingerprints")
